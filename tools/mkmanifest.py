#!/usr/bin/env python3
"""regenerate /verif/MANIFEST.json from the table below (keeps checks / not_applicable consistent)"""
import json
import os

ROOT = os.path.dirname(os.path.dirname(os.path.abspath(__file__)))
props = [json.loads(l)["id"] for l in open(os.path.join(ROOT, "properties.jsonl"))]

CLAIMS = {
    "C01": ("Theorems C01_bytes / C01_no_panic / C01_terminates / C01_single_iff over Frag (send and recv of unix/mod.rs over byte ranges) for every length, every buffer size S >= 48, every attachment count and every ENOBUFS oracle; integer core regenerated from /repo by the translator; control structure tied by system-call traces of the real crate (default, memfd, in-process builds)",
            "translator + trace correspondence (frag driver) + Coq proof"),
    "C02": ("Theorems over the Conc labelled transition system for EVERY schedule (any number of senders, messages, packets): delivered = prefix of the linearisation order, ids distinct, completeness at quiescence, progress; linked to Frag.send by C02_send_is_a_message; tied by per-send call-sequence conformance and a tagged-payload oracle under threads/processes/receiver modes",
            "invariant proof over all interleavings in Coq + trace conformance (conc driver)"),
    "C09": ("Theorems C09_fails / C09_never_success over Frag with an EPIPE oracle; vanish driver (receiver dropped before/during a send, in transit, carrier dropped; SIGPIPE default) with watchdog; call sequence under [FPipe] compared with the model",
            "Coq proof over the fragment loop + scenario correspondence (vanish driver)"),
    "C12": ("Theorems over the Crash LTS (Conc + LCrash at any point + LRSkip): delivered = survivors of a prefix, completeness, receiver never stuck, skip only for aborted messages; crash driver kills a forked sender before EVERY tracked libc call and compares deliveries with the LTS run on the corresponding schedule",
            "invariant proof over all schedules and crash points in Coq + exhaustive kill-point enumeration (crash driver)"),
    "C13": ("Theorems for EVERY ENOBUFS oracle: termination, exact delivery on success, every transmitted packet fits the receiver's buffer, transmitted ranges tile a prefix (no duplication), generated downsize spec; all 2^10 fault patterns x 5 shapes x attachments x 2 S compared call by call with the model",
            "Coq proof over the fragment loop with arbitrary fault oracle + exhaustive fault-pattern trace correspondence"),
    "C15": ("Theorems C15_accept_iff / C15_refused_early / C15_accepted_complete over Frag with the generated MAX_FDS_IN_CMSG; attachment counts 0..300 x data shapes compared with the model and judged by an attachment-identity oracle",
            "Coq proof + count sweep correspondence (frag driver)"),
    "C18": ("Theorems on the index arithmetic the unsafe blocks rely on: recv never trips its capacity assert nor overflows for ANY packet sequence and returns exactly the announced length; send never slices out of range; generated CMSG_* arithmetic; receive-buffer sizes of every recvmsg/recv compared with the model; zero/odd-length regions; ASan in thorough mode (support only)",
            "Coq proof of buffer/index arithmetic + trace correspondence of buffer sizes (+ ASan as search support)"),
    "C03": ("Theorems over the Ideal model (handles = references with DERIVED counts, gc of unreferenced receiving ends): invariant for every reachable state, "
            "'disconnected' iff queue empty and no sender handle alive and no sender in transit in a live queue, idle channel is 'empty', pending messages first; "
            "carried to the unix back end by unix_refines_ideal (for every program both models give the same outcomes); random histories compared with a reference "
            "count kept by the generator, with both models and with the descriptor ledger; at the level of the whole API (Api.v: regions, sets, servers) "
            "C03_api_disconnected_iff and C03_api_receiver_live; blocked / timed / polling receives racing the final drop, and channels born in a one-shot server, under a watchdog",
            "refinement proof (Unix refines Ideal) + invariant proofs in Coq; program-level correspondence (prog driver)"),
    "C04": ("Theorems: positional round-trip of values with endpoints/regions at arbitrary depth through the bincode model and the attachment side tables (C04_positions), "
            "descriptor order on the wire (C04_wire_order), i-th right becomes i-th handle of the same channel (C04_install_positions), backlog delivered oldest first; "
            "transfer chains of 1..5 hops with backlog and endpoint-bearing values decoded and probed, compared with the models",
            "Coq proofs (codec round-trip, wire order, install positions) + chain/codec correspondence"),
    "C11": ("Theorems over the Unix model for EVERY operation sequence: open descriptors = descriptors owned by live objects (permutation, no duplicates), no close of a "
            "descriptor that is not open, no double close, nothing left once all handles are gone; per-operation descriptor counts and the full descriptor ledger of random "
            "programs equal the model's; for the WHOLE API (channels, regions, receiver sets, one-shot servers, undecodable messages) at reference level: held references = "
            "references backing live handles after every program, nothing held once all handles are gone (C11_api_held_exact, C11_api_quiescent over Api.v); "
            "resource scenarios (failing and over-long connects, clients that never send, servers, regions, sets, undecoded messages, bad TMPDIR) repeated; close-on-exec and what a "
            "spawned child inherits",
            "ownership-invariant proof in Coq + descriptor-ledger correspondence + resource scenario oracle"),
    "C14": ("Theorems over Tls (serialiser programs with nested and failing sends, any depth): thread-local tables unchanged after ANY send, a message carries exactly "
            "its own-level attachments, a failed send releases exactly what it collected, independence from earlier table contents; scripted Serialize implementations "
            "run against the real crate, every message's raw attachments identified by probing and compared with the model",
            "frame theorems in Coq + scripted-serializer correspondence (script driver)"),
    "C16": ("Theorems over Codec for ARBITRARY bytes and attachment tables: the decoder is total with two outcomes; conservation (endpoints of the decoded value + leftovers "
            "= attachments as multisets: no forgery, no duplication, nothing lost); 2400 (thorough 50000) valid / mutated / random / type-confused messages decoded as 12 "
            "types and compared with the model; release of every attachment and descriptor counts checked; undecoded drops",
            "Coq proofs (totality, conservation) + differential decoding against the model (codec driver)"),
    "C19": ("Theorem unix_refines_ideal: for EVERY program the Unix model (OS transport) and the Ideal model (= in-process transport: handles are references) return the "
            "same outcome list; Api.v models the whole single-process API (regions, receiver sets, one-shot servers, undecodable messages): its invariant holds after every "
            "program (C19_api_invariant), Ideal is its restriction to channel programs (C19_api_conservative) and hence Unix = Api on those (C19_unix_is_api); the same seeded "
            "programs (channel programs and whole-API programs) run on the default, memfd and in-process builds must agree with each other and with the models",
            "simulation proof in Coq + three-build differential run (prog driver)"),
    "C05": ("Theorems over Shm (objects with a size fixed by ftruncate, regions = descriptor + mapping, receivers map the fstat size, empty region = None / usize::MAX at the ipc level): "
            "from_bytes / from_byte read back exactly, clones read the same, a received region has the same length and bytes for EVERY length incl. 0 and non-page-multiples, "
            "contents persist when other handles are dropped, mappings and descriptors balance; shm driver over lengths around page boundaries, 1..8 regions, clone generations, "
            "forked receivers, three builds, ftruncate/mmap lengths from the trace",
            "Coq proofs over the shared-memory model + length/boundary sweep with trace comparison (shm driver)"),
    "C06": ("Theorems over the RSet LTS (edge-triggered epoll ready list, concurrent senders, arbitrary schedule): no lost wake-up, select does not block while something is pending, "
            "per-member events = its messages in send order (queued before add included) then exactly one closure when disconnected and drained, distinct ids, EINTR is a no-op; "
            "rset driver with up to 64 members (> batch capacity), adds before/during/after traffic, EINTR injection: per-member oracle, edge-trigger discipline read off the system "
            "calls, sequential scenarios replayed on the LTS; the public IpcReceiverSet inside whole-API programs: per member every queued message once, in order, then the closure iff no "
            "sender reference exists (C06_api_member_events over Api.v); multi-member bursts, reversed readiness order and paced races at both set levels and on both builds",
            "invariant proof over all interleavings in Coq + discipline conformance and event-order correspondence (rset driver)"),
    "C07": ("Theorems over the Router LTS for every schedule: calls of a handler ++ queue = sent (exactly once, in order, pre-queued included), no other handler, dropped at most once and "
            "never called afterwards, wake-ups pair 1:1 with control messages; router driver with up to 32 routes from up to 8 threads, callback and crossbeam routes, per-route log oracle, "
            "per-handler projections compared with the LTS",
            "invariant proof over all interleavings in Coq + per-route log correspondence (router driver)"),
    "C08": ("Theorems over the Server LTS for every order of {create, connect, send, client exit, accept, read}: delivered ++ queued = sent per connection, accept returns the first message "
            "of the oldest connection and is enabled as soon as it exists, names distinct and present exactly while listening, nothing left after accept or unused drop; server driver with "
            "thread / forked / spawned clients, 1..20 messages, 200 servers at once, clients that connect and never send, file-system and descriptor accounting; at whole-API level "
            "C08_api_accept_first (accept yields the head of the rendezvous queue and the receiving end of that very channel)",
            "invariant proof in Coq + scenario correspondence and fs/fd ledger (server driver)"),
    "C10": ("Theorems over Timed (UnixCmsg::recv's three modes with the O_NONBLOCK flag explicit): the flag is cleared again after ANY sequence of calls with any results, outcome table of "
            "try_recv, it never blocks, 'empty' from a timed receive only after poll reported a full timeout of floor(d / 1 ms), early return on arrival or hang-up; timed driver with "
            "sequences of the three calls against senders acting before and during the call: outcomes, elapsed time, F_SETFL pairing and poll arguments compared with the model; "
            "the retry loop over messages a crashed sender left unfinished (recv_all: same mode, full timeout again), waits cut short by a signal (run_sig: an I/O error, never 'empty'), "
            "and the GENERATED error conversions (translator: try_recv_class / recv_class; 'empty' for EAGAIN only, 'disconnected' for a closed channel only) are part of the model; "
            "crash driver observers timeout_idle / timeout_live replayed on it. "
            "Partial: elapsed wall-clock time is runtime behaviour, measured by the driver, not exhibited by the model",
            "Coq proofs over the receive-mode state machine + trace correspondence of flag/poll calls (timed driver)"),
    "C17": ("Theorems over the Router LTS (after the fix): Ack implies stopped, stopped is final (no call ever again, routes empty, only DropArgs of late routes possible), every callback ever "
            "offered has been dropped exactly once when stopped, late routes never invoked, no Panic, shutdown idempotent, a thread blocked in shutdown() can always progress; router driver "
            "with shutdown from 1..4 threads racing add_route, proxy drop, further traffic afterwards, process-wide panic hook, watchdog",
            "invariant proof over all interleavings in Coq + stop-scenario correspondence (router driver)"),
    "C20": ("Theorems over the Async LTS (to_stream = enqueue then wake-up, NOT atomic; routing thread phases): yielded ++ stream queue ++ kernel queue = sent for every converted channel, "
            "streams independent, end-of-stream only after hang-up and complete delivery, a registration is never stranded (at the wait: #registrations <= wake-ups pending + in progress); "
            "async driver (feature async) with up to 32 streams from up to 8 threads consumed by separate executors, watchdog for lost wake-ups",
            "invariant proof over all interleavings in Coq + stream-content correspondence (async driver)"),
}
NOT_YET = "check not built yet in this round (planned, see DESIGN.md section 6)"

m = {
    "version": 1,
    "setup_cmd": "bin/vcheck setup",
    "hooks": {"guard": "ipc_channel_verif",
              "enable": "RUSTFLAGS=\"--cfg ipc_channel_verif\" (reserved; no guarded code exists: all instrumentation sits at the libc boundary in /verif/shim/vshim.c)",
              "baseline_off_cmd": "cd /repo && cargo test --workspace --no-fail-fast --offline", "source_commits": [], "add_only": True},
    "engines": [
        {"name": "coq", "path": "coq", "serves_properties": sorted(CLAIMS),
         "kind_free_text": "Coq 8.16.1 development: integer core generated from /repo (translator/rs2v.py), hand-written executable model, proofs, property theorems (coq/props)"},
        {"name": "harness", "path": "harness", "serves_properties": sorted(CLAIMS),
         "kind_free_text": "Rust harness + LD_PRELOAD shim: runs the real crate on generated scenarios; traces and outcomes compared with the model evaluated by coqc (vm_compute)"}],
    "checks": [],
    "not_applicable": [{"property_id": p, "reason": NOT_YET} for p in props if p not in CLAIMS],
    "notes": "All checks: bin/vcheck <id> --quick|--thorough. Fixed defects of the pinned tree are listed in known_findings.json (status=fixed suppresses nothing).",
}
for p in sorted(CLAIMS):
    text, tech = CLAIMS[p]
    m["checks"].append({
        "property_id": p, "quick_cmd": "bin/vcheck %s --quick" % p, "thorough_cmd": "bin/vcheck %s --thorough" % p,
        "evidence_file": "evidence/%s.json" % p, "replay_cmd_template": "bin/vcheck replay {path}", "engine": "coq",
        "level_claimed": {"category": "proof", "text": text, "design_ref": "DESIGN.md section 6, %s" % p},
        "level_note": "Coq 8.16.1 kernel, no axioms (Print Assumptions checked on every run); translator rs2v.py; shim + harness correspondence; "
                      "Linux socket/epoll/shm semantics, bincode, crossbeam, futures are modelled, not verified; macOS/Windows back ends not covered",
        "technique": tech})
json.dump(m, open(os.path.join(ROOT, "MANIFEST.json"), "w"), indent=1)
print("claimed:", sorted(CLAIMS), "not claimed:", [p for p in props if p not in CLAIMS])
