#!/bin/bash
# validate_mutation.sh <worktree> : confirm (in the scratch worktree) that the suite passes with the change,
# the demo fails with it and passes without. Prints a one-line JSON summary.
WT=$1
cd "$WT" || exit 2
export CARGO_TARGET_DIR=$WT/target CARGO_NET_OFFLINE=true
FEAT=""
[ -f DEMO_FEATURES ] && FEAT="--features $(head -1 DEMO_FEATURES | tr -d '\n')"
git checkout -q -- src 2>/dev/null
git apply mutation.diff || { echo '{"error":"patch does not apply"}'; exit 1; }
suite1=$(timeout 900 cargo test --offline --lib 2>&1 | grep -E "^test result" | head -1)
suite2=$(timeout 900 cargo test --offline --lib 2>&1 | grep -E "^test result" | head -1)
demo_with=$(timeout 900 cargo test --offline $FEAT --test demo 2>&1 | grep -E "^test result|error(\[|:)" | head -1)
git checkout -q -- src
demo_without=$(timeout 900 cargo test --offline $FEAT --test demo 2>&1 | grep -E "^test result|error(\[|:)" | head -1)
printf '{"suite1":"%s","suite2":"%s","demo_with":"%s","demo_without":"%s","features":"%s"}\n' "$suite1" "$suite2" "$demo_with" "$demo_without" "$FEAT"
