#!/bin/bash
# enq.sh <priority 0-9> <command...> : enqueue a job for tools/worker.sh (lower priority number runs first)
p=$1; shift
echo "$*" > /tmp/wt/queue/$p-$(date +%s%N)
