#!/usr/bin/env python3
"""wave_prompt.py <prop> <suffix> : create the scratch worktree /tmp/wt/<prop>-<suffix> of /repo and print the prompt handed to
an independent sub-agent.  The prompt contains only the property text, the worktree path, the rules of the exercise and a
one-line summary of the mechanisms earlier agents already used for that property (so that the new change differs); nothing
about the checks, models or drivers in /verif."""
import json, os, subprocess, sys

prop, suf = sys.argv[1], sys.argv[2]
area = sys.argv[3] if len(sys.argv) > 3 else ""
wt = "/tmp/wt/%s-%s" % (prop, suf)
os.makedirs("/tmp/wt", exist_ok=True)
if not os.path.exists(wt):
    subprocess.run(["git", "-C", "/repo", "worktree", "add", "--detach", wt, "HEAD"], check=True, capture_output=True)
P = {}
for l in open("/verif/properties.jsonl"):
    p = json.loads(l)
    P[p["id"]] = p
p = P[prop]
used = []
for d in sorted(os.listdir("/verif/seeded")):
    if d.startswith(prop + "-"):
        try:
            used.append(json.load(open("/verif/seeded/%s/meta.json" % d))["needs_to_manifest"])
        except Exception:
            pass
print("""You are helping to evaluate a verification framework for the Rust crate `ipc-channel` (a fork of servo's ipc-channel).
Your job is to play the role of a developer who introduces a subtle, realistic regression.

Your private scratch git worktree of the crate is at {wt} (work ONLY inside that directory; never touch /repo or /verif,
do not read /verif at all). The sandbox has no network: always use `cargo ... --offline`, and set
`CARGO_TARGET_DIR={wt}/target` for every cargo command so build output stays inside your worktree.

THE PROPERTY (this is all you are told about what is being verified):

  {pid} - {title}
  {stmt}

YOUR TASK: make a change to the crate's source (under src/, not the tests) that BREAKS this property while
  (1) the crate still compiles (default features; if you touch feature-gated code it must compile with that feature too),
  (2) the existing test suite still passes: `cargo test --offline --lib` must report 82 passed, 0 failed (run it at least twice,
      some tests are timing sensitive),
  (3) the breakage needs something SPECIFIC to manifest - a particular interleaving, a crash or fault at a particular point,
      a multi-step sequence of operations, an unusual input or size, a particular feature/back end, or two cooperating code
      sites that each look fine alone - NOT something ordinary use would expose at once,
  (4) the change looks like something a real developer might plausibly write (a refactoring, an "optimisation", a
      well-meant fix, a clean-up), with natural comments; no test-only hooks, no environment variables, no `cfg(test)` tricks,
      no randomness, no time bombs.
Keep the change small (typically 3-40 changed lines).
{area}
Earlier participants already used the following mechanisms for this property; yours must differ in BOTH code site and mechanism:
{used}

DELIVERABLES, all inside {wt}:
  * `mutation.diff` in the worktree root: output of `git diff -- src` (the source change only).
  * `tests/demo.rs`: an integration test (uses only the crate's public API plus std/libc; dev-dependencies of the crate are
    available; `#[test]` functions) that FAILS (assertion failure, panic, or a hang turned into a failure by a timeout/watchdog
    thread of at most 20 s) with your change and PASSES without it. It must be deterministic enough to fail every time with the change.
    Run with `cargo test --offline --test demo`. If the demonstration needs a cargo feature (e.g. `force-inprocess`, `memfd`,
    `async`), write the feature list on one line into a file `DEMO_FEATURES` in the worktree root (e.g. `force-inprocess`) and
    run it as `cargo test --offline --features <features> --test demo`.
  * `MUTATION.md`: 10-20 lines: what you changed, why it breaks the property, what exactly is needed for it to manifest,
    and the commands you ran with their results.
Verify everything yourself before finishing: suite passes twice with the change; demo fails with the change; then
`git stash` (or `git checkout -- src`), demo passes without the change; then re-apply your change (`git apply mutation.diff`)
so the worktree ends in the changed state. Do not commit anything.
Finish by replying with a 5-line summary: file(s)/function(s) changed, mechanism, what is needed to manifest, results of the runs.
""".format(wt=wt, pid=prop, title=p.get("title", ""), stmt=p.get("statement", p.get("text", "")),
           area=("\nPREFERRED AREA for your change (to diversify the exercise): " + area + "\n") if area else "",
           used="\n".join("  - " + u for u in used) or "  (none)"))
