#!/bin/bash
# retry.sh <id> <prop>... : re-run the quick checks against an already validated mutation (diff saved as /tmp/wt/<id>.diff)
ID=$1; shift
( flock 9; /verif/tools/try_mutation.sh /tmp/wt/$ID.diff "$@" ) 9>/tmp/wt/.lock > /tmp/wt/$ID.retry 2>&1
cat /tmp/wt/$ID.retry
