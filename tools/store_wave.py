#!/usr/bin/env python3
"""store_wave.py <notes.json> <wave-name> [ids...] : copy validated sub-agent mutations from /tmp/wt/<id> into /verif/seeded/<id>
(patch.diff is the diff that was actually applied to /repo, /tmp/wt/<id>.diff) with meta.json, then remove the scratch worktree.
notes.json maps id -> [breaks, "caught-by list", needs_to_manifest, strengthening note]."""
import json, os, shutil, subprocess, sys
notes = json.load(open(sys.argv[1]))
wave = sys.argv[2]
ids = sys.argv[3:] or sorted(notes)
for mid in ids:
    breaks, caught, needs, note = notes[mid]
    wt = "/tmp/wt/" + mid
    d = "/verif/seeded/" + mid
    if not os.path.isdir(wt):
        print("skip (no worktree)", mid)
        continue
    os.makedirs(d, exist_ok=True)
    shutil.copy(wt + ".diff" if os.path.exists(wt + ".diff") else wt + "/mutation.diff", d + "/patch.diff")
    for src, dst in (("tests/demo.rs", "demo.rs"), ("MUTATION.md", "MUTATION.md"), ("DEMO_FEATURES", "DEMO_FEATURES")):
        if os.path.exists(os.path.join(wt, src)):
            shutil.copy(os.path.join(wt, src), os.path.join(d, dst))
    val = open(wt + ".validate").read().strip() if os.path.exists(wt + ".validate") else ""
    meta = {"breaks": breaks,
            "origin": "independent sub-agent (%s wave) given only the property text, a preferred area of the code, a one-line list of mechanisms "
                      "already used for that property and a scratch worktree" % wave,
            "needs_to_manifest": needs,
            "confirmed_by_me": "tools/validate_mutation.sh in the scratch worktree: existing suite passes with the change (two runs), demo fails with it, "
                               "demo passes without it (demo run with the features named in DEMO_FEATURES, if any)",
            "validation_output": val, "checks_run": "tools/try_mutation.sh <patch> %s (quick tier)" % caught, "caught_by": caught,
            "how": "VIOLATION with a concrete failing input from each of: " + caught}
    if note:
        meta["strengthened"] = note
    json.dump(meta, open(d + "/meta.json", "w"), indent=1)
    subprocess.run(["git", "-C", "/repo", "worktree", "remove", "--force", wt], capture_output=True)
    subprocess.run(["rm", "-rf", wt])
    print("stored", d)
subprocess.run(["git", "-C", "/repo", "worktree", "prune"])
