#!/bin/bash
# all_thorough.sh : every thorough check once on the unchanged tree (under the lock); summary in /tmp/vlog/thorough.txt
mkdir -p /tmp/vlog; : > /tmp/vlog/thorough.txt
for i in 01 02 03 04 05 06 07 08 09 10 11 12 13 14 15 16 17 18 19 20; do
  ( flock 9; s=$(date +%s); timeout 3000 /verif/bin/vcheck C$i --thorough > /tmp/vlog/C$i.thorough.log 2>&1; echo "C$i rc=$? $(( $(date +%s)-s ))s $(tail -1 /tmp/vlog/C$i.thorough.log | cut -c1-150)" >> /tmp/vlog/thorough.txt ) 9>/tmp/wt/.lock
done
