#!/bin/bash
# all_quick.sh <seed> : every quick check once on the unchanged tree with the given seed; summary in /tmp/vlog/all_<seed>.txt
mkdir -p /tmp/vlog /tmp/wt; : > /tmp/vlog/all_$1.txt
( flock 9
for i in 01 02 03 04 05 06 07 08 09 10 11 12 13 14 15 16 17 18 19 20; do
  s=$(date +%s); VERIF_SEED=$1 /verif/bin/vcheck C$i --quick > /tmp/vlog/C$i.$1.log 2>&1; echo "C$i rc=$? $(( $(date +%s)-s ))s $(tail -1 /tmp/vlog/C$i.$1.log | cut -c1-150)" >> /tmp/vlog/all_$1.txt
done ) 9>/tmp/wt/.lock
