#!/usr/bin/env python3
"""seeded_table.py: regenerate the table of seeded changes in DESIGN.md (between the SEEDED-TABLE markers) from seeded/*/meta.json"""
import json, os, re
rows = []
for d in sorted(os.listdir("/verif/seeded")):
    mp = os.path.join("/verif/seeded", d, "meta.json")
    if not os.path.exists(mp):
        continue
    m = json.load(open(mp))
    origin = m.get("origin", "")
    o = "reverse of a fix" if d.startswith("revert-") else ("hand-written" if d.startswith("hand-") else ("sub-agent, wave 4" if "fourth wave" in origin else ("sub-agent, wave 5" if "fifth wave" in origin else ("sub-agent, wave 6" if "sixth wave" in origin else ("sub-agent, wave 7" if "seventh wave" in origin else ("sub-agent, wave 8" if "eighth wave" in origin else ("sub-agent, wave 9" if "ninth wave" in origin else "sub-agent, wave 3"))))) if ("third wave" in origin or "fifth wave" in origin or "sixth wave" in origin or "seventh wave" in origin or "eighth wave" in origin or "ninth wave" in origin) else ("sub-agent, wave 2" if "second wave" in origin else "sub-agent, wave 1")))
    needs = (m.get("needs_to_manifest") or m.get("needs") or "").replace("|", "/").replace("\n", " ")
    if d.startswith("revert-") and not needs:
        needs = "see known_findings.json"
    caught = m.get("caught_by", "") or m.get("breaks", "")
    if isinstance(caught, list):
        caught = ", ".join(caught)
    st = m.get("strengthened", "")
    cell = caught + ((" — " + st) if st else "")
    rows.append("| `seeded/%s` | %s | %s | %s | %s |" % (d, m.get("breaks", ""), needs[:330], cell.replace("|", "/")[:420], o))
table = "| seeded change | breaks | needs, in order to manifest | caught by (and what was strengthened when the first run missed it) | origin |\n|---|---|---|---|---|\n" + "\n".join(rows)
p = "/verif/DESIGN.md"
s = open(p).read()
a, b = "<!-- SEEDED-TABLE-BEGIN -->", "<!-- SEEDED-TABLE-END -->"
if a in s:
    s = s[:s.index(a) + len(a)] + "\n" + table + "\n" + s[s.index(b):]
    open(p, "w").write(s)
    print("table rewritten: %d rows" % len(rows))
else:
    print(table)
