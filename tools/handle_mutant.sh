#!/bin/bash
# handle_mutant.sh <id> <prop>... : validate the sub-agent mutation in /tmp/wt/<id>, then run the quick checks of the given
# properties against it (serialised by a lock because /repo is patched in place). Result in /tmp/wt/<id>.result
ID=$1; shift
WT=/tmp/wt/$ID
( flock 9
  /verif/tools/validate_mutation.sh $WT > $WT.validate 2>&1
  cat $WT.validate
  cp $WT/mutation.diff /tmp/wt/$ID.diff
  /verif/tools/try_mutation.sh /tmp/wt/$ID.diff "$@"
) 9>/tmp/wt/.lock > /tmp/wt/$ID.result 2>&1
