#!/bin/bash
# try_mutation.sh <patch> <prop>... : apply a seeded change to /repo, run the quick checks, undo it.
P=$1; shift
cd /repo && git checkout -q -- . && git apply "$P" || { echo "patch does not apply"; exit 2; }
cd /verif
rm -rf build/evidence.keep && cp -r evidence build/evidence.keep
for p in "$@"; do
  out=$(timeout 1500 bin/vcheck $p --quick 2>/dev/null | tail -1)
  echo "$p: $out"
done
git -C /repo checkout -q -- .
rm -rf evidence && cp -r build/evidence.keep evidence
