#!/bin/bash
# regress_seeded.sh [pattern] : apply every stored seeded change in turn and run the quick check of the property it breaks
# (under the lock that serialises everything that patches /repo); one line per change in /tmp/vlog/regress.txt
mkdir -p /tmp/vlog /tmp/wt; : > /tmp/vlog/regress.txt
for d in /verif/seeded/${1:-*}; do
  id=$(basename $d); p=$(python3 -c "import json;print(json.load(open('$d/meta.json'))['breaks'].split()[0])")
  ( flock 9; r=$(/verif/tools/try_mutation.sh $d/patch.diff $p | tail -1); echo "$id $r" >> /tmp/vlog/regress.txt ) 9>/tmp/wt/.lock
done
