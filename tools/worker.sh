#!/bin/bash
# worker.sh : single sequential worker for everything that patches /repo or runs checks (jobs = files in /tmp/wt/queue, in name order)
mkdir -p /tmp/wt/queue /tmp/wt/done
while true; do
  j=$(ls /tmp/wt/queue 2>/dev/null | sort | head -1)
  if [ -z "$j" ]; then sleep 3; continue; fi
  cmd=$(cat /tmp/wt/queue/$j); mv /tmp/wt/queue/$j /tmp/wt/done/$j
  echo "$(date +%T) start $j: $cmd" >> /tmp/wt/worker.log
  bash -c "$cmd" >> /tmp/wt/worker.out 2>&1
  echo "$(date +%T) end $j" >> /tmp/wt/worker.log
done
