#!/usr/bin/env python3
"""store_mutation.py <id> <breaks> <caught_by> <needs> <how> [note] : copy a validated sub-agent mutation from /tmp/wt/<id>
into /verif/seeded/<id> with meta.json, then remove the scratch worktree."""
import json, os, shutil, subprocess, sys
mid, breaks, caught, needs, how = sys.argv[1:6]
note = sys.argv[6] if len(sys.argv) > 6 else ""
wt = "/tmp/wt/" + mid
d = "/verif/seeded/" + mid
os.makedirs(d, exist_ok=True)
shutil.copy(wt + "/mutation.diff", d + "/patch.diff")
for src, dst in (("tests/demo.rs", "demo.rs"), ("MUTATION.md", "MUTATION.md")):
    if os.path.exists(os.path.join(wt, src)):
        shutil.copy(os.path.join(wt, src), os.path.join(d, dst))
val = open(wt + ".validate").read().strip() if os.path.exists(wt + ".validate") else ""
meta = {"breaks": breaks, "origin": "independent sub-agent (second wave) given only the property text and a scratch worktree",
        "needs_to_manifest": needs,
        "confirmed_by_me": "tools/validate_mutation.sh in the scratch worktree: existing suite passes with the change (two runs), demo fails with it, demo passes without it",
        "validation_output": val, "checks_run": "tools/try_mutation.sh <patch> %s (quick tier)" % caught, "caught_by": caught, "how": how}
if note:
    meta["strengthened"] = note
json.dump(meta, open(d + "/meta.json", "w"), indent=1)
subprocess.run(["git", "-C", "/repo", "worktree", "remove", "--force", wt])
subprocess.run(["rm", "-rf", wt, wt + ".validate"])
print("stored", d)
