//! `codec` driver (C04 positions, C16): arbitrary (bytes, attachments) messages are sent through the public
//! API with the `Raw` type and decoded as one of 12 expected types; the decoded value is rendered as a Coq
//! `val` term with every endpoint identified by probing, so that it can be compared with the model.
use crate::nullser::Null;
use crate::util::*;
use ipc_channel::ipc::{
    self, IpcBytesReceiver, IpcBytesSender, IpcError, IpcReceiver, IpcReceiverSet, IpcSelectionResult, IpcSender,
    IpcSharedMemory, OpaqueIpcSender, TryRecvError,
};
use serde::ser::SerializeTuple;
use serde::{Deserialize, Serialize, Serializer};
use serde_json::json;
use std::io::BufRead;
use std::panic::{catch_unwind, AssertUnwindSafe};

pub enum RawAtt {
    Tx(IpcSender<u32>),
    Rx(IpcReceiver<u32>),
    Shm(IpcSharedMemory),
}
pub struct Raw {
    pub bytes: Vec<u8>,
    pub atts: Vec<RawAtt>,
}
impl Serialize for Raw {
    fn serialize<S: Serializer>(&self, serializer: S) -> Result<S::Ok, S::Error> {
        for a in &self.atts {
            // registers the endpoint in the per-thread attachment list; the index it writes is discarded
            let _ = match a {
                RawAtt::Tx(s) => s.serialize(Null),
                RawAtt::Rx(r) => r.serialize(Null),
                RawAtt::Shm(g) => g.serialize(Null),
            };
        }
        let mut t = serializer.serialize_tuple(self.bytes.len())?;
        for b in &self.bytes {
            t.serialize_element(b)?;
        }
        t.end()
    }
}
impl<'de> Deserialize<'de> for Raw {
    fn deserialize<D: serde::Deserializer<'de>>(_: D) -> Result<Self, D::Error> {
        Err(serde::de::Error::custom("Raw is send-only"))
    }
}

#[derive(Serialize, Deserialize)]
pub enum E {
    A,
    B(u32),
    C { x: String, y: Option<u8> },
}
#[derive(Serialize, Deserialize)]
pub struct N {
    id: u64,
    chans: Vec<IpcSender<u8>>,
    region: Option<IpcSharedMemory>,
    tag: E,
    f: f64,
}

pub struct Ctx {
    kept_rx: Vec<Option<IpcReceiver<u32>>>, // per channel attachment: the receiver we kept (attachment was a sender)
    kept_tx: Vec<Option<IpcSender<u32>>>,   // per channel attachment: the sender we kept (attachment was a receiver)
    regions: Vec<Vec<u8>>,
}
impl Ctx {
    fn which_rx_got_something(&self) -> String {
        for (i, r) in self.kept_rx.iter().enumerate() {
            if let Some(r) = r {
                match r.try_recv() {
                    Err(TryRecvError::Empty) => {},
                    Err(TryRecvError::IpcError(IpcError::Disconnected)) => {},
                    _ => return i.to_string(),
                }
            }
        }
        "?".into()
    }
    fn region_id(&self, g: &[u8]) -> String {
        for (i, c) in self.regions.iter().enumerate() {
            if c[..] == g[..] {
                return format!("(Some {})", i);
            }
        }
        if g.is_empty() {
            "None".into()
        } else {
            "(Some ?)".into()
        }
    }
}

pub trait Render {
    fn render(&self, c: &Ctx) -> String;
}
impl Render for u8 {
    fn render(&self, _: &Ctx) -> String {
        format!("VU8 {}", self)
    }
}
impl Render for u32 {
    fn render(&self, _: &Ctx) -> String {
        format!("VU32 {}", self)
    }
}
impl Render for u64 {
    fn render(&self, _: &Ctx) -> String {
        format!("VU64 {}", self)
    }
}
impl Render for i64 {
    fn render(&self, _: &Ctx) -> String {
        format!("VI64 ({})", self)
    }
}
impl Render for f64 {
    fn render(&self, _: &Ctx) -> String {
        format!("VF64 {}", self.to_bits())
    }
}
impl Render for String {
    fn render(&self, _: &Ctx) -> String {
        format!("VString [{}]", self.as_bytes().iter().map(|b| b.to_string()).collect::<Vec<_>>().join("; "))
    }
}
impl<T: Render> Render for Vec<T> {
    fn render(&self, c: &Ctx) -> String {
        format!("VSeq [{}]", self.iter().map(|x| x.render(c)).collect::<Vec<_>>().join("; "))
    }
}
impl<T: Render> Render for Option<T> {
    fn render(&self, c: &Ctx) -> String {
        match self {
            None => "VNone".into(),
            Some(x) => format!("VSome ({})", x.render(c)),
        }
    }
}
impl<A: Render, B: Render> Render for (A, B) {
    fn render(&self, c: &Ctx) -> String {
        format!("VTuple [{}; {}]", self.0.render(c), self.1.render(c))
    }
}
impl<A: Render, B: Render, C: Render> Render for (A, B, C) {
    fn render(&self, c: &Ctx) -> String {
        format!("VTuple [{}; {}; {}]", self.0.render(c), self.1.render(c), self.2.render(c))
    }
}
impl Render for E {
    fn render(&self, c: &Ctx) -> String {
        match self {
            E::A => "VEnum 0 VUnit".into(),
            E::B(n) => format!("VEnum 1 ({})", n.render(c)),
            E::C { x, y } => format!("VEnum 2 (VTuple [{}; {}])", x.render(c), y.render(c)),
        }
    }
}
impl Render for N {
    fn render(&self, c: &Ctx) -> String {
        format!(
            "VTuple [{}; {}; {}; {}; {}]",
            self.id.render(c),
            self.chans.render(c),
            self.region.render(c),
            self.tag.render(c),
            self.f.render(c)
        )
    }
}
impl Render for IpcSender<u32> {
    fn render(&self, c: &Ctx) -> String {
        let _ = self.send(0xABCD);
        format!("VSender {}", c.which_rx_got_something())
    }
}
impl Render for IpcSender<u8> {
    fn render(&self, c: &Ctx) -> String {
        let _ = self.send(7);
        format!("VSender {}", c.which_rx_got_something())
    }
}
impl Render for OpaqueIpcSender {
    fn render(&self, c: &Ctx) -> String {
        let _ = self.clone().to::<u32>().send(0xABCD);
        format!("VSender {}", c.which_rx_got_something())
    }
}
impl Render for IpcBytesSender {
    fn render(&self, c: &Ctx) -> String {
        let _ = self.send(&[1, 2, 3]);
        format!("VSender {}", c.which_rx_got_something())
    }
}
impl Render for IpcReceiver<u32> {
    fn render(&self, _: &Ctx) -> String {
        match self.try_recv() {
            Ok(j) => format!("VReceiver {}", j),
            _ => "VReceiver ?".into(),
        }
    }
}
impl Render for IpcBytesReceiver {
    fn render(&self, _: &Ctx) -> String {
        match self.try_recv() {
            Ok(b) if b.len() == 4 => format!("VReceiver {}", u32::from_le_bytes([b[0], b[1], b[2], b[3]])),
            _ => "VReceiver ?".into(),
        }
    }
}
impl Render for IpcSharedMemory {
    fn render(&self, c: &Ctx) -> String {
        format!("VRegion {}", c.region_id(&self[..]))
    }
}

fn region_content(i: usize) -> Vec<u8> {
    payload(1000 + i as u64, 50 + i)
}

fn unhex(s: &str) -> Vec<u8> {
    (0..s.len() / 2).map(|i| u8::from_str_radix(&s[2 * i..2 * i + 2], 16).unwrap()).collect()
}

/// build the attachments, send (bytes, attachments) as a `Raw` over a channel typed T, decode, render, release
fn one<T>(id: u64, bytes: Vec<u8>, atts: &str, dropmode: bool) -> serde_json::Value
where
    T: for<'de> Deserialize<'de> + Serialize + Render,
{
    let fds_before = open_fds().len();
    let maps_before = shm_mappings();
    let mut ctx = Ctx { kept_rx: vec![], kept_tx: vec![], regions: vec![] };
    let mut raw_atts = Vec::new();
    for k in atts.chars() {
        match k {
            's' => {
                let (s, r) = ipc::channel::<u32>().unwrap();
                raw_atts.push(RawAtt::Tx(s));
                ctx.kept_rx.push(Some(r));
                ctx.kept_tx.push(None);
            },
            'r' => {
                let (s, r) = ipc::channel::<u32>().unwrap();
                raw_atts.push(RawAtt::Rx(r));
                ctx.kept_rx.push(None);
                ctx.kept_tx.push(Some(s));
            },
            'm' => {
                let c = region_content(ctx.regions.len());
                raw_atts.push(RawAtt::Shm(IpcSharedMemory::from_bytes(&c)));
                ctx.regions.push(c);
            },
            _ => {},
        }
    }
    let (out, released) = {
        let (tx, rx) = ipc::channel::<T>().unwrap();
        let rawtx: IpcSender<Raw> = tx.to_opaque().to::<Raw>();
        let sent = rawtx.send(Raw { bytes, atts: raw_atts }).is_ok();
        // every kept sender announces its own index, so that a decoded receiver can be identified
        for (j, s) in ctx.kept_tx.iter().enumerate() {
            if let Some(s) = s {
                let _ = s.send(j as u32);
            }
        }
        let out = if !sent {
            "SendErr".to_string()
        } else if dropmode {
            // receive through a set as an opaque message and drop it without decoding
            let mut set = IpcReceiverSet::new().unwrap();
            set.add(rx).unwrap();
            let r = catch_unwind(AssertUnwindSafe(|| {
                let evs = set.select().unwrap();
                let n = evs.len();
                for e in evs {
                    if let IpcSelectionResult::MessageReceived(_, m) = e {
                        // a receiver that logs what it could not decode: formatting the raw message must not panic either
                        let shown = format!("{:?}", m);
                        drop(shown);
                        drop(m);
                    }
                }
                n
            }));
            match r {
                Ok(_) => "Dropped".into(),
                Err(_) => "Panic".into(),
            }
        } else {
            let r = catch_unwind(AssertUnwindSafe(|| match rx.try_recv() {
                Ok(v) => {
                    let s = v.render(&ctx);
                    drop(v);
                    format!("Ok {}", s)
                },
                Err(TryRecvError::IpcError(IpcError::Bincode(_))) => "Err".to_string(),
                Err(e) => format!("Other({:?})", e),
            }));
            r.unwrap_or_else(|_| "Panic".to_string())
        };
        drop(rawtx);
        // everything must have been released by now: attachments handed out were dropped with the value,
        // the others with the message
        let mut released = Vec::new();
        for i in 0..ctx.kept_rx.len() {
            if let Some(r) = &ctx.kept_rx[i] {
                let mut st = "Empty";
                loop {
                    match r.try_recv() {
                        Ok(_) | Err(TryRecvError::IpcError(IpcError::Bincode(_))) => continue,
                        Err(TryRecvError::Empty) => break,
                        Err(TryRecvError::IpcError(IpcError::Disconnected)) => {
                            st = "Disconnected";
                            break;
                        },
                        Err(_) => {
                            st = "Other";
                            break;
                        },
                    }
                }
                released.push(st == "Disconnected");
            } else if let Some(s) = &ctx.kept_tx[i] {
                released.push(s.send(0).is_err());
            }
        }
        (out, released)
    };
    drop(ctx);
    json!({"kind":"dec","id":id,"out":out,"released":released,"fds_before":fds_before,"fds_after":open_fds().len(),
           "maps_before":maps_before,"maps_after":shm_mappings()})
}

pub fn run() {
    install_panic_flag();
    let stdin = std::io::stdin();
    for line in stdin.lock().lines() {
        let line = line.unwrap();
        if line.trim().is_empty() {
            continue;
        }
        let a = kv(&line);
        let id: u64 = a["id"].parse().unwrap();
        let ty: u32 = a["ty"].parse().unwrap();
        let bytes = unhex(a.get("bytes").map(|s| s.as_str()).unwrap_or(""));
        let atts = a.get("atts").cloned().unwrap_or_default();
        let d = a.get("drop").map(|s| s == "1").unwrap_or(false);
        mark(&format!("dec {}", id));
        let out = match ty {
            1 => one::<u8>(id, bytes, &atts, d),
            2 => one::<u32>(id, bytes, &atts, d),
            3 => one::<(u64, i64)>(id, bytes, &atts, d),
            4 => one::<String>(id, bytes, &atts, d),
            5 => one::<Vec<u8>>(id, bytes, &atts, d),
            6 => one::<Vec<(u32, String)>>(id, bytes, &atts, d),
            7 => one::<Option<Vec<u64>>>(id, bytes, &atts, d),
            8 => one::<E>(id, bytes, &atts, d),
            9 => one::<IpcSender<u32>>(id, bytes, &atts, d),
            10 => one::<(IpcReceiver<u32>, IpcSharedMemory)>(id, bytes, &atts, d),
            11 => one::<(Vec<OpaqueIpcSender>, IpcBytesSender, IpcBytesReceiver)>(id, bytes, &atts, d),
            12 => one::<N>(id, bytes, &atts, d),
            13 => one::<(IpcReceiver<u32>, IpcReceiver<u32>)>(id, bytes, &atts, d),
            14 => one::<(IpcBytesReceiver, OpaqueIpcSender, Option<IpcReceiver<u32>>)>(id, bytes, &atts, d),
            _ => json!({"error":"ty"}),
        };
        mark(&format!("enddec {}", id));
        println!("{}", out);
        if out["out"] == "Panic" {
            // the per-thread tables may be in an arbitrary state after a panic: start afresh
            std::process::exit(3);
        }
    }
}
