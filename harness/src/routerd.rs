//! `router` driver (C07, C17): routes registered from several threads while messages are queued or in flight,
//! callback and crossbeam-forwarding routes, stopped by shutdown (possibly from several threads, racing with
//! add_route) or by dropping the proxy; followed by further sends on the old routes.
use crate::util::*;
use ipc_channel::ipc::{self, IpcSender};
use ipc_channel::router::RouterProxy;
use serde_json::json;
use std::io::BufRead;
use std::sync::atomic::Ordering;
use std::sync::{Arc, Mutex};

#[derive(Clone)]
struct Log(Arc<Mutex<Vec<(String, u32, u32, u32)>>>); // (what, handler, route-tag-in-message, seq)
impl Log {
    fn push(&self, what: &str, h: u32, r: u32, q: u32) {
        self.0.lock().unwrap().push((what.to_string(), h, r, q));
    }
}
static SLOW_DROP_US: std::sync::atomic::AtomicU64 = std::sync::atomic::AtomicU64::new(0);
struct Guard(Log, u32);
impl Drop for Guard {
    fn drop(&mut self) {
        // what a callback owns may be slow to release: the drop is only complete (and logged) afterwards
        let us = SLOW_DROP_US.load(Ordering::SeqCst);
        if us > 0 {
            std::thread::sleep(std::time::Duration::from_micros(us));
        }
        self.0.push("drop", self.1, 0, 0);
    }
}

pub fn run() {
    install_panic_flag();
    let stdin = std::io::stdin();
    for line in stdin.lock().lines() {
        let line = line.unwrap();
        if line.trim().is_empty() {
            continue;
        }
        let a = kv(&line);
        let id: u64 = a["id"].parse().unwrap();
        // no scenario takes longer than a few watchdog periods: a main thread that is stuck for good (a deadlocked registration, say)
        // ends the process instead of waiting for the caller's patience to run out
        unsafe { libc::alarm(60) };
        if a.get("op").map(|s| s == "reenter").unwrap_or(false) {
            // a callback that uses the proxy itself: on every message it registers a reply route (whose channel already holds one
            // message).  The messages of the outer route are queued BEFORE it is registered.  Nothing may deadlock: every outer
            // message is handled once, in order, every reply route gets its message
            let nq: u32 = a["n"].parse().unwrap();
            let proxy = Arc::new(RouterProxy::new());
            let olog: Arc<Mutex<Vec<u32>>> = Arc::new(Mutex::new(Vec::new()));
            let rlog: Arc<Mutex<Vec<u32>>> = Arc::new(Mutex::new(Vec::new()));
            let (tx, rx) = ipc::channel::<u32>().unwrap();
            for q in 0..nq {
                tx.send(q).unwrap();
            }
            let (p2, ol, rl) = (proxy.clone(), olog.clone(), rlog.clone());
            let keep: Arc<Mutex<Vec<IpcSender<u32>>>> = Arc::new(Mutex::new(Vec::new()));
            let k2 = keep.clone();
            let done = with_watchdog(6_000, move || {
                p2.clone().add_route(
                    rx.to_opaque(),
                    Box::new(move |m| {
                        if let Ok(q) = m.to::<u32>() {
                            ol.lock().unwrap().push(q);
                            let (rtx, rrx) = ipc::channel::<u32>().unwrap();
                            let _ = rtx.send(100 + q);
                            let rl2 = rl.clone();
                            p2.add_route(
                                rrx.to_opaque(),
                                Box::new(move |m| {
                                    if let Ok(v) = m.to::<u32>() {
                                        rl2.lock().unwrap().push(v);
                                    }
                                }),
                            );
                            k2.lock().unwrap().push(rtx);
                        }
                    }),
                );
            });
            // one more message after the registration
            let _ = tx.send(nq);
            let t0 = std::time::Instant::now();
            while (olog.lock().unwrap().len() < (nq + 1) as usize || rlog.lock().unwrap().len() < (nq + 1) as usize) && t0.elapsed().as_secs() < 5 {
                std::thread::sleep(std::time::Duration::from_millis(2));
            }
            let mut replies = rlog.lock().unwrap().clone();
            replies.sort();
            println!("{}", json!({"kind":"reenter","id":id,"n":nq,"registered":done.is_some(),"outer":olog.lock().unwrap().clone(),"replies":replies}));
            // the proxy is leaked on purpose when the scenario deadlocked (shutdown would block too)
            if done.is_some() {
                let p = proxy.clone();
                let _ = with_watchdog(3_000, move || p.shutdown());
            }
            std::mem::forget(proxy);
            continue;
        }
        if a.get("op").map(|s| s == "sizes").unwrap_or(false) {
            // messages of very different sizes (single packet ... several MiB) on ONE route of each kind: each arrives once, whole, in
            // send order; the consumer sees the end only after the last of them
            let sizes: Vec<usize> = a["sizes"].split(',').map(|x| x.parse().unwrap()).collect();
            let proxy = RouterProxy::new();
            let (xtx, xrx) = ipc::channel::<(u32, Vec<u8>)>().unwrap();
            let (ctx, crx) = ipc::channel::<(u32, Vec<u8>)>().unwrap();
            let (btx, brx) = ipc::channel::<(u32, Vec<u8>)>().unwrap();
            let xr = proxy.route_ipc_receiver_to_new_crossbeam_receiver(xrx);
            let (own_tx, own_rx) = crossbeam_channel::unbounded::<(u32, Vec<u8>)>();
            proxy.route_ipc_receiver_to_crossbeam_sender(brx, own_tx);
            let clog: Arc<Mutex<Vec<(u32, usize, bool)>>> = Arc::new(Mutex::new(Vec::new()));
            let cl = clog.clone();
            proxy.add_route(
                crx.to_opaque(),
                Box::new(move |m| {
                    if let Ok((q, d)) = m.to::<(u32, Vec<u8>)>() {
                        let ok = d == payload(id * 1000 + q as u64, d.len());
                        cl.lock().unwrap().push((q, d.len(), ok));
                    }
                }),
            );
            // payloads are built first, so that on each route a small message follows a large one back to back
            let datas: Arc<Vec<Vec<u8>>> = Arc::new(sizes.iter().enumerate().map(|(q, n)| payload(id * 1000 + q as u64, *n)).collect());
            let mut senders = Vec::new();
            for tx in [xtx, btx, ctx] {
                let datas = datas.clone();
                senders.push(std::thread::spawn(move || {
                    for (q, d) in datas.iter().enumerate() {
                        let _ = tx.send((q as u32, d.clone()));
                    }
                    // the sender goes: the consumer must still get everything, then see the end
                }));
            }
            let n = sizes.len();
            let drain = move |r: crossbeam_channel::Receiver<(u32, Vec<u8>)>| {
                let mut got: Vec<(u32, usize, bool)> = Vec::new();
                let mut ended = false;
                let t0 = std::time::Instant::now();
                while t0.elapsed().as_secs() < 15 {
                    match r.recv_timeout(std::time::Duration::from_millis(200)) {
                        Ok((q, d)) => {
                            let ok = d == payload(id * 1000 + q as u64, d.len());
                            got.push((q, d.len(), ok));
                        },
                        Err(crossbeam_channel::RecvTimeoutError::Disconnected) => {
                            ended = true;
                            break;
                        },
                        Err(crossbeam_channel::RecvTimeoutError::Timeout) => {},
                    }
                }
                (got, ended)
            };
            let (xgot, xend) = drain(xr);
            let (bgot, bend) = drain(own_rx);
            for h in senders {
                let _ = h.join();
            }
            let t0 = std::time::Instant::now();
            while clog.lock().unwrap().len() < n && t0.elapsed().as_secs() < 10 {
                std::thread::sleep(std::time::Duration::from_millis(2));
            }
            std::thread::sleep(std::time::Duration::from_millis(30));
            let cgot = clog.lock().unwrap().clone();
            println!("{}", json!({"kind":"sizes","id":id,"sizes":sizes,"new_receiver":{"got":xgot,"ended":xend},"own_sender":{"got":bgot,"ended":bend},"callback":{"got":cgot}}));
            proxy.shutdown();
            continue;
        }
        // plan per route: before,after,drop(0/1),kind(c=callback,x=crossbeam)
        // plan=none: a router that never gets a route before it is stopped
        let plan: Vec<(u32, u32, bool, bool)> = a["plan"]
            .split(';')
            .filter(|p| *p != "none")
            .map(|p| {
                let v: Vec<&str> = p.split(',').collect();
                (v[0].parse().unwrap(), v[1].parse().unwrap(), v[2] == "1", v[3] == "x" || v[3] == "b" || v[3] == "z")
            })
            .collect();
        // crossbeam routes whose consumer supplies its own BOUNDED sender (capacity 1 for 'b', 0 for 'z') and reads slowly
        let bounded: Vec<Option<usize>> = a["plan"]
            .split(';')
            .filter(|p| *p != "none")
            .map(|p| match p.split(',').nth(3) {
                Some("b") => Some(1),
                Some("z") => Some(0),
                _ => None,
            })
            .collect();
        let threads: usize = a.get("threads").map(|s| s.parse().unwrap()).unwrap_or(1);
        let stop = a.get("stop").cloned().unwrap_or_else(|| "none".into());
        let nshut: usize = a.get("nshut").map(|s| s.parse().unwrap()).unwrap_or(1);
        let late: u32 = a.get("late").map(|s| s.parse().unwrap()).unwrap_or(0);
        let wave2: u32 = a.get("wave2").map(|s| s.parse().unwrap()).unwrap_or(0);
        SLOW_DROP_US.store(a.get("slowdrop").map(|s| s.parse().unwrap()).unwrap_or(0), Ordering::SeqCst);
        PANICKED.store(false, Ordering::SeqCst);
        let log = Log(Arc::new(Mutex::new(Vec::new())));
        let proxy = Arc::new(RouterProxy::new());
        let n = plan.len();
        let mut txs: Vec<IpcSender<(u32, u32)>> = Vec::new();
        let mut regs = Vec::new();
        for (i, p) in plan.iter().enumerate() {
            let (tx, rx) = ipc::channel::<(u32, u32)>().unwrap();
            for q in 0..p.0 {
                tx.send((i as u32, q)).unwrap();
            }
            txs.push(tx);
            regs.push(Some(rx));
        }
        // registration from several threads, while the senders keep sending
        let mut handles = Vec::new();
        let xrecv: Arc<Mutex<Vec<(u32, crossbeam_channel::Receiver<(u32, u32)>)>>> = Arc::new(Mutex::new(Vec::new()));
        for t in 0..threads {
            let mine: Vec<(usize, ipc::IpcReceiver<(u32, u32)>, bool)> =
                (0..n).filter(|i| i % threads == t).map(|i| (i, regs[i].take().unwrap(), plan[i].3)).collect();
            let (proxy, log, xrecv) = (proxy.clone(), log.clone(), xrecv.clone());
            let bounded = bounded.clone();
            handles.push(std::thread::spawn(move || {
                for (i, rx, cross) in mine {
                    if let Some(cap) = bounded[i] {
                        // the consumer's own bounded channel: a slow reader copies everything into an unbounded one, which the
                        // common code below drains like any other crossbeam route
                        let (btx, brx) = crossbeam_channel::bounded::<(u32, u32)>(cap);
                        let (utx, urx) = crossbeam_channel::unbounded::<(u32, u32)>();
                        proxy.route_ipc_receiver_to_crossbeam_sender(rx, btx);
                        std::thread::spawn(move || {
                            while let Ok(m) = brx.recv() {
                                std::thread::sleep(std::time::Duration::from_micros(300));
                                if utx.send(m).is_err() {
                                    break;
                                }
                            }
                        });
                        xrecv.lock().unwrap().push((i as u32, urx));
                    } else if cross {
                        let r = proxy.route_ipc_receiver_to_new_crossbeam_receiver(rx);
                        xrecv.lock().unwrap().push((i as u32, r));
                    } else {
                        let g = Guard(log.clone(), i as u32);
                        let l = log.clone();
                        proxy.add_route(
                            rx.to_opaque(),
                            Box::new(move |m| {
                                let _keep = &g;
                                match m.to::<(u32, u32)>() {
                                    Ok((r, q)) => l.push("call", i as u32, r, q),
                                    Err(_) => l.push("badmsg", i as u32, 0, 0),
                                }
                            }),
                        );
                    }
                }
            }));
        }
        // park=ms: the later messages are only sent - and the senders dropped - while the router thread sits in a callback for that
        // long, so that its next batch holds messages of some routes FOLLOWED BY the bare closures of others
        let park: u64 = a.get("park").map(|s| s.parse().unwrap()).unwrap_or(0);
        if park == 0 {
            for (i, p) in plan.iter().enumerate() {
                for q in 0..p.1 {
                    let _ = txs[i].send((i as u32, p.0 + q));
                }
            }
        }
        for h in handles {
            let _ = h.join();
        }
        let mut park_keep = None;
        if park > 0 {
            // let the router finish what is queued, then park it
            std::thread::sleep(std::time::Duration::from_millis(30));
            let (gtx, grx) = ipc::channel::<u32>().unwrap();
            proxy.add_route(grx.to_opaque(), Box::new(move |_m| std::thread::sleep(std::time::Duration::from_millis(park))));
            let _ = gtx.send(1);
            std::thread::sleep(std::time::Duration::from_millis(15));
            for (i, p) in plan.iter().enumerate() {
                for q in 0..p.1 {
                    let _ = txs[i].send((i as u32, p.0 + q));
                }
            }
            park_keep = Some(gtx);
        }
        // senders that are to be dropped go now; the others stay for the post-stop probe
        let mut kept: Vec<(usize, IpcSender<(u32, u32)>)> = Vec::new();
        for (i, tx) in txs.into_iter().enumerate() {
            if plan[i].2 {
                drop(tx);
            } else {
                kept.push((i, tx));
            }
        }
        // let the router work: wait until everything expected has shown up (or 5 s)
        let expected_calls: usize = plan.iter().filter(|p| !p.3).map(|p| (p.0 + p.1) as usize).sum();
        let expected_drops: usize = plan.iter().filter(|p| !p.3 && p.2).count();
        let t0 = std::time::Instant::now();
        loop {
            let l = log.0.lock().unwrap();
            let calls = l.iter().filter(|e| e.0 == "call").count();
            let drops = l.iter().filter(|e| e.0 == "drop").count();
            drop(l);
            if (calls >= expected_calls && drops >= expected_drops) || t0.elapsed().as_secs() >= 5 {
                break;
            }
            std::thread::sleep(std::time::Duration::from_millis(2));
        }
        // second wave: routes registered after earlier routes have closed, while others are still live
        let mut wave2_keep = Vec::new();
        if wave2 > 0 {
            for j in 0..wave2 {
                let h = 500 + j;
                let (tx, rx) = ipc::channel::<(u32, u32)>().unwrap();
                let g = Guard(log.clone(), h);
                let l = log.clone();
                proxy.add_route(
                    rx.to_opaque(),
                    Box::new(move |m| {
                        let _keep = &g;
                        match m.to::<(u32, u32)>() {
                            Ok((r, q)) => l.push("call", h, r, q),
                            Err(_) => l.push("badmsg", h, 0, 0),
                        }
                    }),
                );
                let _ = tx.send((h, 0));
                let _ = tx.send((h, 1));
                wave2_keep.push(tx);
            }
            // the routes of the first wave that are still connected get one more message each
            for (i, tx) in kept.iter() {
                if !plan[*i].3 {
                    let _ = tx.send((*i as u32, plan[*i].0 + plan[*i].1));
                }
            }
            let want = expected_calls + 2 * wave2 as usize + kept.iter().filter(|(i, _)| !plan[*i].3).count();
            let t2 = std::time::Instant::now();
            while log.0.lock().unwrap().iter().filter(|e| e.0 == "call").count() < want && t2.elapsed().as_secs() < 4 {
                std::thread::sleep(std::time::Duration::from_millis(2));
            }
        }
        // crossbeam routes: drain what was forwarded
        let mut xlog: Vec<(u32, Vec<(u32, u32)>, bool)> = Vec::new();
        for (i, r) in xrecv.lock().unwrap().iter() {
            let mut got = Vec::new();
            let mut disc = false;
            let want = (plan[*i as usize].0 + plan[*i as usize].1) as usize;
            let t1 = std::time::Instant::now();
            loop {
                match r.try_recv() {
                    Ok(m) => got.push(m),
                    Err(crossbeam_channel::TryRecvError::Disconnected) => {
                        disc = true;
                        break;
                    },
                    Err(crossbeam_channel::TryRecvError::Empty) => {
                        if (got.len() >= want && !plan[*i as usize].2) || t1.elapsed().as_secs() >= 3 {
                            break;
                        }
                        std::thread::sleep(std::time::Duration::from_millis(1));
                    },
                }
            }
            xlog.push((*i, got, disc));
        }
        let before_stop = log.0.lock().unwrap().len();
        // stop
        let mut stop_ok = true;
        let mut late_log = Vec::new();
        match stop.as_str() {
            "shutdown" => {
                let mut hs = Vec::new();
                let at_ret: Arc<Mutex<Vec<usize>>> = Arc::new(Mutex::new(Vec::new()));
                let cross = a.get("cross").map(|s| s == "1").unwrap_or(false);
                // busy=ms: the router thread is parked inside a callback for that long when shutdown() is requested, so the request
                // stays pending while other threads offer routes
                let busy: u64 = a.get("busy").map(|s| s.parse().unwrap()).unwrap_or(0);
                let mut busy_keep = None;
                if busy > 0 {
                    let (btx, brx) = ipc::channel::<u32>().unwrap();
                    proxy.add_route(brx.to_opaque(), Box::new(move |_m| std::thread::sleep(std::time::Duration::from_millis(busy))));
                    let _ = btx.send(1);
                    std::thread::sleep(std::time::Duration::from_millis(15));
                    busy_keep = Some(btx);
                }
                let other = RouterProxy::new(); // cross=1: shutdown() is called from a callback running on ANOTHER router's thread
                for _ in 0..nshut {
                    let p = proxy.clone();
                    let (l, ar) = (log.clone(), at_ret.clone());
                    let body = move || {
                        p.shutdown();
                        // the very instant shutdown() returns: how many callbacks have been dropped?
                        let n = l.0.lock().unwrap().iter().filter(|e| e.0 == "drop" && e.1 < 500).count();
                        ar.lock().unwrap().push(n);
                    };
                    if cross {
                        let (qtx, qrx) = ipc::channel::<u32>().unwrap();
                        let (dtx, drx) = crossbeam_channel::bounded::<()>(1);
                        let mut body = Some(body);
                        other.add_route(
                            qrx.to_opaque(),
                            Box::new(move |_m| {
                                if let Some(b) = body.take() {
                                    b();
                                    let _ = dtx.send(());
                                }
                            }),
                        );
                        let _ = qtx.send(1);
                        hs.push(std::thread::spawn(move || {
                            let _ = drx.recv_timeout(std::time::Duration::from_secs(8));
                            drop(qtx);
                        }));
                    } else {
                        hs.push(std::thread::spawn(body));
                    }
                }
                // routes offered while / after the shutdown is in progress
                let mut late_handles = Vec::new();
                if busy > 0 {
                    // the shutdown request is pending (its caller waits for the acknowledgement): routes offered from several threads
                    std::thread::sleep(std::time::Duration::from_millis(busy / 4 + 5));
                    // ... and traffic on the routes that are still connected: it reaches the router together with (behind) the
                    // shutdown wake-up, in one batch
                    for (i, tx) in kept.iter() {
                        let _ = tx.send((*i as u32, 7777));
                    }
                    let mut ths = Vec::new();
                    for j in 0..4u32 {
                        let (p, lg) = (proxy.clone(), log.clone());
                        ths.push(std::thread::spawn(move || {
                            let (ltx, lrx) = ipc::channel::<(u32, u32)>().unwrap();
                            let _ = ltx.send((3000 + j, 0));
                            let g = Guard(lg.clone(), 3000 + j);
                            p.add_route(
                                lrx.to_opaque(),
                                Box::new(move |_m| {
                                    let _keep = &g;
                                    lg.push("call", 3000 + j, 0, 0)
                                }),
                            );
                            ltx
                        }));
                    }
                    for t in ths {
                        if let Ok(ltx) = t.join() {
                            late_handles.push(ltx);
                        }
                    }
                }
                for j in 0..late {
                    let (ltx, lrx) = ipc::channel::<(u32, u32)>().unwrap();
                    let _ = ltx.send((1000 + j, 0));
                    let g = Guard(log.clone(), 1000 + j);
                    let l = log.clone();
                    proxy.add_route(
                        lrx.to_opaque(),
                        Box::new(move |_m| {
                            let _keep = &g;
                            l.push("call", 1000 + j, 0, 0)
                        }),
                    );
                    late_handles.push(ltx);
                }
                let done = with_watchdog(8_000, move || {
                    for h in hs {
                        let _ = h.join();
                    }
                });
                stop_ok = done.is_some();
                // after shutdown() has returned: a second call returns at once, later routes are dropped uninvoked
                if stop_ok {
                    let p = proxy.clone();
                    stop_ok = with_watchdog(3_000, move || p.shutdown()).is_some();
                    let (ltx, lrx) = ipc::channel::<(u32, u32)>().unwrap();
                    let _ = ltx.send((2000, 0));
                    let g = Guard(log.clone(), 2000);
                    let l = log.clone();
                    proxy.add_route(
                        lrx.to_opaque(),
                        Box::new(move |_m| {
                            let _keep = &g;
                            l.push("call", 2000, 0, 0)
                        }),
                    );
                    late_handles.push(ltx);
                }
                // ... and a typed route offered after shutdown(): its consumer must see the channel disconnect (nothing will ever come)
                let mut late_typed_disc = None;
                if stop_ok {
                    let (ttx, trx) = ipc::channel::<(u32, u32)>().unwrap();
                    let cr = proxy.route_ipc_receiver_to_new_crossbeam_receiver(trx);
                    late_typed_disc = Some(matches!(cr.recv_timeout(std::time::Duration::from_millis(1500)), Err(crossbeam_channel::RecvTimeoutError::Disconnected)));
                    drop(ttx);
                }
                late_log = late_handles.iter().map(|_| 0).collect();
                let at_return = log.0.lock().unwrap().clone();
                let xafter: Vec<(u32, bool)> = xrecv
                    .lock()
                    .unwrap()
                    .iter()
                    .map(|(i, r)| {
                        let t1 = std::time::Instant::now();
                        let mut disc = false;
                        loop {
                            match r.try_recv() {
                                Ok(_) => {},
                                Err(crossbeam_channel::TryRecvError::Disconnected) => {
                                    disc = true;
                                    break;
                                },
                                Err(crossbeam_channel::TryRecvError::Empty) => {
                                    if t1.elapsed().as_millis() >= 1500 {
                                        break;
                                    }
                                    std::thread::sleep(std::time::Duration::from_millis(1));
                                },
                            }
                        }
                        (*i, disc)
                    })
                    .collect();

                // further traffic on the old routes must not reach any callback
                for (i, tx) in kept.iter() {
                    let _ = tx.send((*i as u32, 9999));
                }
                std::thread::sleep(std::time::Duration::from_millis(60));
                let fin = log.0.lock().unwrap().clone();
                println!(
                    "{}",
                    json!({"kind":"router","id":id,"stop":stop,"stop_ok":stop_ok,"panicked":PANICKED.load(Ordering::SeqCst),
                           "log_before_stop": fin[..before_stop.min(fin.len())], "log_at_return": at_return[before_stop.min(at_return.len())..],
                           "log_after": fin[at_return.len().min(fin.len())..], "xlog": xlog, "xafter": xafter, "late": late_log.len(),
                           "drops_at_return": at_ret.lock().unwrap().clone(), "late_typed_disc": late_typed_disc})
                );
                drop(late_handles);
                drop(wave2_keep);
                drop(busy_keep);
                other.shutdown();
                continue;
            },
            "proxydrop" => {
                let weak = Arc::downgrade(&proxy);
                let owned = a.get("owned").map(|s| s == "1").unwrap_or(false);
                if owned {
                    // the last handle on the proxy is owned by a route's callback: it is released on the router thread
                    // itself, when that route closes
                    let (otx, orx) = ipc::channel::<(u32, u32)>().unwrap();
                    let g = Guard(log.clone(), 700);
                    let keep = proxy.clone();
                    proxy.add_route(
                        orx.to_opaque(),
                        Box::new(move |_m| {
                            let _keep = (&g, &keep);
                        }),
                    );
                    drop(proxy);
                    std::thread::sleep(std::time::Duration::from_millis(20));
                    drop(otx);
                    let t1 = std::time::Instant::now();
                    while weak.upgrade().is_some() && t1.elapsed().as_millis() < 3000 {
                        std::thread::sleep(std::time::Duration::from_millis(2));
                    }
                } else {
                    drop(proxy);
                }
                stop_ok = weak.upgrade().is_none();
                // the router thread notices the loss of its proxy asynchronously: give it time to stop
                // (every callback guard dropped), then probe the old routes
                let want = plan.iter().filter(|p| !p.3).count();
                let t1 = std::time::Instant::now();
                while log.0.lock().unwrap().iter().filter(|e| e.0 == "drop").count() < want && t1.elapsed().as_millis() < 3000 {
                    std::thread::sleep(std::time::Duration::from_millis(2));
                }
                for (i, tx) in kept.iter() {
                    let _ = tx.send((*i as u32, 9999));
                }
                std::thread::sleep(std::time::Duration::from_millis(80));
            },
            _ => {},
        }
        let fin = log.0.lock().unwrap().clone();
        let limit_ms: u128 = if stop == "none" { 0 } else { 1500 };
        let xafter: Vec<(u32, bool)> = xrecv
            .lock()
            .unwrap()
            .iter()
            .map(|(i, r)| {
                let t1 = std::time::Instant::now();
                let mut disc = false;
                loop {
                    match r.try_recv() {
                        Ok(_) => {},
                        Err(crossbeam_channel::TryRecvError::Disconnected) => {
                            disc = true;
                            break;
                        },
                        Err(crossbeam_channel::TryRecvError::Empty) => {
                            if t1.elapsed().as_millis() >= limit_ms {
                                break;
                            }
                            std::thread::sleep(std::time::Duration::from_millis(1));
                        },
                    }
                }
                (*i, disc)
            })
            .collect();
        println!(
            "{}",
            json!({"kind":"router","id":id,"stop":stop,"stop_ok":stop_ok,"panicked":PANICKED.load(Ordering::SeqCst),
                   "log_before_stop": fin[..before_stop.min(fin.len())], "log_at_return": [], "log_after": fin[before_stop.min(fin.len())..],
                   "xlog": xlog, "xafter": if stop == "none" { vec![] } else { xafter }, "late": 0})
        );
        drop(kept);
        drop(wave2_keep);
        drop(park_keep);
    }
}
