//! `crash` driver (C12): a forked sender is killed by the shim before its k-th tracked libc call.
use crate::conc::{tagged, untag};
use crate::util::*;
use ipc_channel::platform::{self, OsIpcChannel, OsIpcReceiverSet, OsIpcSelectionResult};
use serde_json::json;
use std::io::BufRead;

pub fn run() {
    let stdin = std::io::stdin();
    for line in stdin.lock().lines() {
        let line = line.unwrap();
        if line.trim().is_empty() {
            continue;
        }
        let a = kv(&line);
        let id: u64 = a["id"].parse().unwrap();
        let len: usize = a["len"].parse().unwrap();
        let k: i64 = a["k"].parse().unwrap();
        let survivor = a.get("survivor").map(|s| s == "1").unwrap_or(false);
        let natt: usize = a.get("natt").map(|s| s.parse().unwrap()).unwrap_or(0);
        let observe = a.get("observe").cloned().unwrap_or_else(|| "recv".into());
        let nreg: usize = a.get("nreg").map(|s| s.parse().unwrap()).unwrap_or(0);
        let fds_before = open_fds().len();
        let maps_before = shm_mappings();
        let (tx, rx) = platform::channel().unwrap();
        let regions: Vec<platform::OsIpcSharedMemory> = (0..nreg).map(|i| platform::OsIpcSharedMemory::from_bytes(&payload(77 + i as u64, 3000 + i))).collect();
        // attachments of the target message: senders whose receivers we keep, to see that they are released
        let mut kept = Vec::new();
        let mut atts = Vec::new();
        // own=1: the program keeps a handle of its own on every attached channel: whatever happens to the copy inside the interrupted
        // message, that handle goes on working until it is dropped
        let own = a.get("own").map(|s| s == "1").unwrap_or(false);
        let mut own_tx = Vec::new();
        for _ in 0..natt {
            let (s, r) = platform::channel().unwrap();
            if own {
                own_tx.push(s.clone());
            }
            atts.push(OsIpcChannel::Sender(s));
            kept.push(r);
        }
        let pid = unsafe { libc::fork() };
        if pid == 0 {
            reset_calls();
            if observe == "timeout_live" {
                // the sender hangs for 300 ms right after the first fragment of a fragmented message (and dies at its next call)
                delay_after_first(300_000);
            }
            arm_kill(k);
            mark(&format!("send {}.P", id));
            let _ = tx.send(&tagged(7, 0, 64), vec![], vec![]);
            mark(&format!("endsend {}.P", id));
            mark(&format!("send {}.T", id));
            let _ = tx.send(&tagged(7, 1, len), atts, regions);
            mark(&format!("endsend {}.T", id));
            mark(&format!("calls {} {}", id, calls()));
            unsafe { libc::_exit(0) };
        }
        drop(atts);
        drop(regions);
        let live = observe == "timeout_live";
        let mut st = 0;
        if !live {
            unsafe { libc::waitpid(pid, &mut st, 0) };
        }
        let mut killed = libc::WIFSIGNALED(st);
        let mut sent_s = serde_json::Value::Null;
        // the survivor's message carries an endpoint of its own: it must arrive with exactly that attachment, whatever an abandoned
        // message before it had carried
        let (satt_tx, satt_rx) = platform::channel().unwrap();
        let mut idle_tx = None;
        if survivor && (observe == "timeout_idle" || live) {
            idle_tx = Some(tx); // alive, silent during the observation
            drop(satt_tx);
        } else if survivor {
            sent_s = json!(tx.send(&tagged(9, 0, 48), vec![OsIpcChannel::Sender(satt_tx)], vec![]).is_ok());
            idle_tx = Some(tx); // stays alive during the observation, released before the descriptors are counted
        } else {
            drop(tx);
            drop(satt_tx);
        }
        // observe
        let obs = observe.clone();
        let res = with_watchdog(10_000, move || {
            let mut log: Vec<serde_json::Value> = Vec::new();
            let push = |log: &mut Vec<serde_json::Value>, d: &[u8]| {
                let (s, q, l, ok) = untag(d);
                log.push(json!({"msg":[s,q,l,ok]}));
                s == 9
            };
            // attachments of the survivor's message: how many arrived, and is the first one the endpoint that was embedded?
            let probe = |log: &mut Vec<serde_json::Value>, d: &[u8], ch: &mut Vec<ipc_channel::platform::OsOpaqueIpcChannel>| {
                if untag(d).0 == 9 {
                    let n = ch.len();
                    let mut first_ok = false;
                    if n >= 1 {
                        let mut c0 = ch.remove(0); // converted here, so it must not be converted again by the caller
                        let s0 = c0.to_sender();
                        first_ok = s0.send(&[0x5A, 0x5A, 0x5A], vec![], vec![]).is_ok();
                    }
                    log.push(json!({"survivor_atts": [n, first_ok]}));
                }
            };
            match obs.as_str() {
                "select" => {
                    let mut set = OsIpcReceiverSet::new().unwrap();
                    let _ = set.add(rx).unwrap();
                    let mut done = false;
                    while !done {
                        match set.select() {
                            Ok(evs) => {
                                for e in evs {
                                    match e {
                                        OsIpcSelectionResult::DataReceived(_, d, mut ch, _) => {
                                            probe(&mut log, &d, &mut ch);
                                            for c in ch.iter_mut() {
                                                drop(c.to_sender());
                                            }
                                            if push(&mut log, &d) {
                                                done = true;
                                            }
                                        },
                                        OsIpcSelectionResult::ChannelClosed(_) => {
                                            log.push(json!("Disconnected"));
                                            done = true;
                                        },
                                    }
                                }
                            },
                            Err(e) => {
                                log.push(json!(classify_recv(e)));
                                done = true;
                            },
                        }
                    }
                    // the set still holds the member (if it was not closed): see that it is still connected
                    (log, None)
                },
                "timeout_live" => {
                    // timed receives (100 ms) issued while the sender is still ALIVE: one of them takes the first fragment, waits for the
                    // rest, and learns only 300 ms later - long after its own timeout - that the sender has died
                    let rounds = 12;
                    for _ in 0..rounds {
                        let r = std::panic::catch_unwind(std::panic::AssertUnwindSafe(|| rx.try_recv_timeout(std::time::Duration::from_millis(100))));
                        match r {
                            Err(_) => {
                                log.push(json!("Panic"));
                                break;
                            },
                            Ok(Ok((d, mut ch, _))) => {
                                for c in ch.iter_mut() {
                                    drop(c.to_sender());
                                }
                                push(&mut log, &d);
                            },
                            Ok(Err(e)) => {
                                let w = classify_recv(e);
                                let stop = w != "Empty";
                                if log.last().map(|l| l != &json!("Empty")).unwrap_or(true) || stop {
                                    log.push(json!(w));
                                }
                                if stop {
                                    break;
                                }
                            },
                        }
                    }
                    (log, None)
                },
                "timeout_idle" => {
                    // the channel is connected (a sender survives) but nothing complete is queued: whatever the crashed sender left
                    // behind, a timed receive must wait its time before it says 'empty'
                    let mut waits = Vec::new();
                    for round in 0..2 {
                        let t0 = std::time::Instant::now();
                        mark(&format!("obs {}.{}", id, round));
                        let r0 = rx.try_recv_timeout(std::time::Duration::from_millis(250));
                        mark(&format!("endobs {}.{}", id, round));
                        log.push(json!({"round": [round, if r0.is_ok() { "OMsg" } else { "other" }]}));
                        match r0 {
                            Ok((d, mut ch, _)) => {
                                for c in ch.iter_mut() {
                                    drop(c.to_sender());
                                }
                                push(&mut log, &d);
                            },
                            Err(e) => {
                                let w = classify_recv(e);
                                waits.push((w.clone(), t0.elapsed().as_micros() as u64));
                                log.push(json!(w));
                            },
                        }
                    }
                    log.push(json!({"waits": waits}));
                    (log, None)
                },
                _ => {
                    let nb = obs == "try";
                    loop {
                        let r = if nb {
                            rx.try_recv()
                        } else if obs == "timeout" {
                            rx.try_recv_timeout(std::time::Duration::from_millis(400))
                        } else {
                            rx.recv()
                        };
                        match r {
                            Ok((d, mut ch, _)) => {
                                probe(&mut log, &d, &mut ch);
                                for c in ch.iter_mut() {
                                    drop(c.to_sender());
                                }
                                if push(&mut log, &d) {
                                    break;
                                }
                            },
                            Err(e) => {
                                log.push(json!(classify_recv(e)));
                                break;
                            },
                        }
                    }
                    // after everything was read: a connected channel is Empty, a finished one Disconnected
                    let after = match rx.try_recv() {
                        Ok(_) => "Msg".to_string(),
                        Err(e) => classify_recv(e),
                    };
                    (log, Some(after))
                },
            }
        });
        if live {
            unsafe { libc::waitpid(pid, &mut st, 0) };
            killed = libc::WIFSIGNALED(st);
        }
        let survivor_probe = matches!(satt_rx.try_recv(), Ok((ref d, _, _)) if d[..] == [0x5A, 0x5A, 0x5A]);
        let (log, after, hang) = match res {
            Some((l, a)) => (l, a, false),
            None => (vec![], None, true),
        };
        // attachments of the target message must have been released if the message was not delivered,
        // i.e. the kept receivers see disconnection (nobody holds their sender any more)
        let mut own_state = Vec::new();
        for (i, s) in own_tx.iter().enumerate() {
            let sent = s.send(&[0x4F, 0x57, 0x4E], vec![], vec![]).is_ok();
            let got = matches!(kept[i].try_recv(), Ok((ref d, _, _)) if d[..] == [0x4F, 0x57, 0x4E]);
            own_state.push((sent, got));
        }
        drop(own_tx);
        let mut att_state = Vec::new();
        for r in kept.iter() {
            att_state.push(match r.try_recv() {
                Ok(_) => "Msg".to_string(),
                Err(e) => classify_recv(e),
            });
        }
        drop(idle_tx);
        drop(kept);
        drop(satt_rx);
        let (fds_after, maps_after) = (open_fds().len(), shm_mappings());
        println!(
            "{}",
            json!({"kind":"crash","id":id,"len":len,"k":k,"survivor":survivor,"natt":natt,"nreg":nreg,"observe":observe,"killed":killed,
                   "fds_before":fds_before,"fds_after":fds_after,"maps_before":maps_before,"maps_after":maps_after,
                   "survivor_sent":sent_s,"own_state":own_state,"log":log,"after":after,"hang":hang,"att_state":att_state,"survivor_probe":survivor_probe})
        );
    }
}
