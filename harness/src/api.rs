//! `api` driver (C19): single-threaded programs over the WHOLE public API - channels, embedded endpoints and regions,
//! receiver sets, one-shot servers - with results printed as terms of the Coq model `Api.v`.
//! Handles are numbered exactly as the model numbers them.
use crate::util::*;
use ipc_channel::ipc::{self, IpcError, IpcOneShotServer, IpcReceiver, IpcReceiverSet, IpcSelectionResult, IpcSender, IpcSharedMemory, OpaqueIpcMessage, TryRecvError};
use serde::{Deserialize, Serialize};
use serde_json::json;
use std::collections::HashMap;
use std::io::BufRead;
use std::sync::atomic::{AtomicU64, Ordering};
use std::time::{Duration, SystemTime, UNIX_EPOCH};

/// a field whose deserialisation fails when the flag is set (a value the receiving side rejects)
struct Poison(bool);
impl Serialize for Poison {
    fn serialize<S: serde::Serializer>(&self, s: S) -> Result<S::Ok, S::Error> {
        s.serialize_bool(self.0)
    }
}
impl<'de> Deserialize<'de> for Poison {
    fn deserialize<D: serde::Deserializer<'de>>(d: D) -> Result<Self, D::Error> {
        if bool::deserialize(d)? {
            Err(serde::de::Error::custom("rejected by the receiving side"))
        } else {
            Ok(Poison(false))
        }
    }
}

#[derive(Serialize, Deserialize)]
enum Att {
    Tx(IpcSender<Msg>),
    Rx(IpcReceiver<Msg>),
    Shm(IpcSharedMemory),
}
#[derive(Serialize, Deserialize)]
struct Msg {
    data: i64,
    pad: Vec<u8>,
    early: Poison,
    atts: Vec<Att>,
    late: Poison,
}

enum Obj {
    Tx(IpcSender<Msg>),
    Rx(IpcReceiver<Msg>),
    Shm(IpcSharedMemory),
    Set(IpcReceiverSet, Vec<u64>),
    Srv(Option<IpcOneShotServer<Msg>>, String),
    Gone,
}

static DEADLINE_MS: AtomicU64 = AtomicU64::new(0);
fn now_ms() -> u64 {
    SystemTime::now().duration_since(UNIX_EPOCH).unwrap().as_millis() as u64
}
fn arm(ms: u64) {
    DEADLINE_MS.store(now_ms() + ms, Ordering::SeqCst);
}
fn disarm() {
    DEADLINE_MS.store(0, Ordering::SeqCst);
}

struct St {
    objs: Vec<Obj>,
    /// (length, checksum) -> seed of every region created by this process
    regions: HashMap<(usize, u64), u64>,
}

fn install(st: &mut St, m: Msg) -> String {
    let mut out = Vec::new();
    for a in m.atts {
        let n = st.objs.len();
        match a {
            Att::Tx(s) => {
                st.objs.push(Obj::Tx(s));
                out.push(format!("(HTx, {})", n));
            },
            Att::Rx(r) => {
                st.objs.push(Obj::Rx(r));
                out.push(format!("(HRx, {})", n));
            },
            Att::Shm(g) => {
                st.objs.push(Obj::Shm(g));
                out.push(format!("(HMem, {})", n));
            },
        }
    }
    format!("({})%Z [{}]", m.data, out.join("; "))
}

fn intact(m: &Msg) -> bool {
    m.pad == payload(m.data as u64, m.pad.len())
}

pub fn run() {
    std::thread::spawn(|| loop {
        std::thread::sleep(Duration::from_millis(100));
        let d = DEADLINE_MS.load(Ordering::SeqCst);
        if d != 0 && now_ms() > d {
            println!("{}", json!({"kind":"hang"}));
            std::process::exit(3);
        }
    });
    let stdin = std::io::stdin();
    let mut st = St { objs: Vec::new(), regions: HashMap::new() };
    let mut prog_id = String::new();
    let mut idx = 0usize;
    for line in stdin.lock().lines() {
        // a main thread stuck for good (a receive on the wrong socket, say) ends the process instead of outlasting the caller
        unsafe { libc::alarm(120) };
        let line = line.unwrap();
        let t: Vec<&str> = line.split_whitespace().collect();
        if t.is_empty() {
            continue;
        }
        if t[0] == "prog" {
            st.objs.clear();
            st.regions.clear();
            prog_id = t[1].to_string();
            idx = 0;
            println!("{}", json!({"kind":"progstart","prog":prog_id,"fds":open_fds().len(),"maps":shm_mappings()}));
            continue;
        }
        if t[0] == "end" {
            st.objs.clear();
            println!("{}", json!({"kind":"progend","prog":prog_id,"fds":open_fds().len(),"maps":shm_mappings()}));
            continue;
        }
        let h = |s: &str| -> usize { s.parse().unwrap() };
        arm(15_000);
        let out: String = match t[0] {
            "new" => {
                let (tx, rx) = ipc::channel::<Msg>().unwrap();
                let n = st.objs.len();
                st.objs.push(Obj::Tx(tx));
                st.objs.push(Obj::Rx(rx));
                format!("QNew {} {}", n, n + 1)
            },
            "clone" => match st.objs.get(h(t[1])) {
                Some(Obj::Tx(s)) => {
                    let c = s.clone();
                    let n = st.objs.len();
                    st.objs.push(Obj::Tx(c));
                    format!("QCloned {}", n)
                },
                _ => "QBad".into(),
            },
            "drop" => {
                let i = h(t[1]);
                if i < st.objs.len() && !matches!(st.objs[i], Obj::Gone) {
                    st.objs[i] = Obj::Gone;
                    "QDropped".into()
                } else {
                    "QBad".into()
                }
            },
            "send" => {
                // send h data pad att,att,...   att = t:<h> | r:<h> | m:<h>; data < 0: a value the receiver's type rejects
                // (odd: after the attachments were decoded, even: before)
                let i = h(t[1]);
                let data: i64 = t[2].parse().unwrap();
                let pad: usize = t[3].parse().unwrap();
                let mut atts = Vec::new();
                let mut bad = false;
                if t.len() > 4 && t[4] != "-" {
                    for a in t[4].split(',') {
                        let (k, x) = a.split_once(':').unwrap();
                        let x = h(x);
                        match (k, st.objs.get(x)) {
                            ("t", Some(Obj::Tx(s))) => atts.push(Att::Tx(s.clone())),
                            ("m", Some(Obj::Shm(g))) => atts.push(Att::Shm(g.clone())),
                            ("r", Some(Obj::Rx(_))) => {
                                if let Obj::Rx(r) = std::mem::replace(&mut st.objs[x], Obj::Gone) {
                                    atts.push(Att::Rx(r));
                                }
                            },
                            _ => bad = true,
                        }
                    }
                }
                let (early, late) = (data < 0 && data % 2 == 0, data < 0 && data % 2 != 0);
                match (bad, st.objs.get(i)) {
                    (false, Some(Obj::Tx(s))) => match s.send(Msg { data, pad: payload(data as u64, pad), early: Poison(early), atts, late: Poison(late) }) {
                        Ok(()) => "QSent".into(),
                        Err(_) => "QSendErr".into(),
                    },
                    _ => "QBad".into(),
                }
            },
            "recv" | "recvt" => {
                let i = h(t[1]);
                let r = match st.objs.get(i) {
                    Some(Obj::Rx(r)) => Some(match t[0] {
                        "recv" => r.try_recv(),
                        _ => r.try_recv_timeout(Duration::from_millis(0)),
                    }),
                    _ => None,
                };
                match r {
                    None => "QBad".into(),
                    Some(Ok(m)) => {
                        if !intact(&m) {
                            "QCorrupt".into()
                        } else {
                            format!("QMsg {}", install(&mut st, m))
                        }
                    },
                    Some(Err(TryRecvError::Empty)) => "QEmpty".into(),
                    Some(Err(TryRecvError::IpcError(IpcError::Disconnected))) => "QDisconnected".into(),
                    Some(Err(TryRecvError::IpcError(IpcError::Bincode(_)))) => "QDecodeErr".into(),
                    Some(Err(e)) => format!("QErr({:?})", e),
                }
            },
            "shm" => {
                let len: usize = t[1].parse().unwrap();
                let seed: u64 = t[2].parse().unwrap();
                let bytes = payload(seed, len);
                st.regions.insert((len, checksum(&bytes)), seed);
                let g = IpcSharedMemory::from_bytes(&bytes);
                let n = st.objs.len();
                st.objs.push(Obj::Shm(g));
                format!("QShm {}", n)
            },
            "shmclone" => match st.objs.get(h(t[1])) {
                Some(Obj::Shm(g)) => {
                    let c = g.clone();
                    let n = st.objs.len();
                    st.objs.push(Obj::Shm(c));
                    format!("QShm {}", n)
                },
                _ => "QBad".into(),
            },
            "shmread" => match st.objs.get(h(t[1])) {
                Some(Obj::Shm(g)) => match st.regions.get(&(g.len(), checksum(&g[..]))) {
                    Some(seed) if g[..] == payload(*seed, g.len())[..] => {
                        // regions compare by contents on every transport: equal to an independently created region with the same
                        // bytes, different from one with other bytes
                        let same = IpcSharedMemory::from_bytes(&payload(*seed, g.len()));
                        let other = IpcSharedMemory::from_bytes(&payload(*seed + 1, g.len() + 1));
                        if *g == same && *g != other {
                            format!("QShmRead ({})%Z ({})%Z", g.len(), seed)
                        } else {
                            format!("QShmEqualityWrong(len={})", g.len())
                        }
                    },
                    _ => format!("QShmCorrupt(len={})", g.len()),
                },
                _ => "QBad".into(),
            },
            "setnew" => {
                let n = st.objs.len();
                st.objs.push(Obj::Set(IpcReceiverSet::new().unwrap(), Vec::new()));
                format!("QSet {}", n)
            },
            "setadd" => {
                let (si, ri) = (h(t[1]), h(t[2]));
                if si == ri || ri >= st.objs.len() || si >= st.objs.len() {
                    "QBad".into()
                } else if matches!(st.objs[ri], Obj::Rx(_)) && matches!(st.objs[si], Obj::Set(..)) {
                    let r = match std::mem::replace(&mut st.objs[ri], Obj::Gone) {
                        Obj::Rx(r) => r,
                        _ => unreachable!(),
                    };
                    if let Obj::Set(set, members) = &mut st.objs[si] {
                        match set.add(r) {
                            Ok(id) => {
                                if members.contains(&id) {
                                    // ids of members that are in the set together must differ (closed ones may be reused)
                                    format!("QDuplicateId({})", id)
                                } else {
                                    members.push(id);
                                    format!("QAdded {}", members.len() - 1)
                                }
                            },
                            Err(e) => format!("QErr({:?})", e),
                        }
                    } else {
                        unreachable!()
                    }
                } else {
                    "QBad".into()
                }
            },
            "selectall" => {
                // selectall s n: select until n events have been reported (the model says n are pending; select blocks otherwise)
                let si = h(t[1]);
                let want: usize = t[2].parse().unwrap();
                let mut raw: Vec<(usize, Option<OpaqueIpcMessage>)> = Vec::new();
                let mut err = None;
                let mut unknown = None;
                if let Some(Obj::Set(set, members)) = st.objs.get_mut(si) {
                    while raw.len() < want && err.is_none() {
                        match set.select() {
                            Ok(evs) => {
                                for e in evs {
                                    let (id, m) = match e {
                                        IpcSelectionResult::MessageReceived(id, m) => (id, Some(m)),
                                        IpcSelectionResult::ChannelClosed(id) => (id, None),
                                    };
                                    match members.iter().position(|x| *x == id) {
                                        Some(p) => {
                                            if m.is_none() {
                                                members[p] = u64::MAX; // the id may be handed out again
                                            }
                                            raw.push((p, m));
                                        },
                                        None => unknown = Some(id),
                                    }
                                }
                            },
                            Err(e) => err = Some(format!("{:?}", e)),
                        }
                    }
                    if let Some(e) = err {
                        format!("QErr({})", e)
                    } else if let Some(id) = unknown {
                        format!("QUnknownId({})", id)
                    } else {
                        // canonical order: members in the order they were added, each member's events in the order reported
                        raw.sort_by_key(|x| x.0);
                        let mut parts = Vec::new();
                        for (p, m) in raw {
                            match m {
                                None => parts.push(format!("SClosed {}", p)),
                                Some(m) => match m.to::<Msg>() {
                                    Ok(m) => {
                                        if intact(&m) {
                                            parts.push(format!("SMsg {} {}", p, install(&mut st, m)))
                                        } else {
                                            parts.push(format!("SCorrupt {}", p))
                                        }
                                    },
                                    Err(_) => parts.push(format!("SBad {}", p)),
                                },
                            }
                        }
                        format!("QSelect [{}]", parts.join("; "))
                    }
                } else {
                    "QBad".into()
                }
            },
            "server" => match IpcOneShotServer::<Msg>::new() {
                Ok((srv, name)) => {
                    let n = st.objs.len();
                    st.objs.push(Obj::Srv(Some(srv), name));
                    format!("QServer {}", n)
                },
                Err(e) => format!("QErr({:?})", e),
            },
            "connect" => match st.objs.get(h(t[1])) {
                Some(Obj::Srv(Some(_), name)) => match IpcSender::<Msg>::connect(name.clone()) {
                    Ok(tx) => {
                        let n = st.objs.len();
                        st.objs.push(Obj::Tx(tx));
                        format!("QConnected {}", n)
                    },
                    Err(e) => format!("QErr({:?})", e),
                },
                _ => "QBad".into(),
            },
            "accept" => {
                let i = h(t[1]);
                let srv = match st.objs.get_mut(i) {
                    Some(Obj::Srv(s, _)) => s.take(),
                    _ => None,
                };
                match srv {
                    None => "QBad".into(),
                    Some(srv) => {
                        st.objs[i] = Obj::Gone;
                        match srv.accept() {
                            Ok((rx, m)) => {
                                let n = st.objs.len();
                                st.objs.push(Obj::Rx(rx));
                                if intact(&m) {
                                    format!("QAccepted {} {}", n, install(&mut st, m))
                                } else {
                                    "QCorrupt".into()
                                }
                            },
                            // the only accept the programs issue without a queued first message is the one whose client has
                            // gone away: the transport reports the closed channel
                            Err(_) => "QDisconnected".into(),
                        }
                    },
                }
            },
            other => format!("QUnknown({})", other),
        };
        disarm();
        println!("{}", json!({"kind":"op","prog":prog_id,"i":idx,"out":out,"fds":open_fds().len(),"maps":shm_mappings()}));
        idx += 1;
    }
}
