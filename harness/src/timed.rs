//! `timed` driver (C10): sequences mixing recv / try_recv / try_recv_timeout against senders that act before or
//! during the call.
use crate::util::*;
use ipc_channel::ipc::{self, IpcError, TryRecvError};
use serde_json::json;
use std::io::BufRead;
use std::time::{Duration, Instant};

fn cls<T>(r: Result<T, TryRecvError>) -> &'static str {
    match r {
        Ok(_) => "OMsg",
        Err(TryRecvError::Empty) => "OEmpty",
        Err(TryRecvError::IpcError(IpcError::Disconnected)) => "ODisconnected",
        Err(_) => "OError",
    }
}

pub fn run() {
    let stdin = std::io::stdin();
    for line in stdin.lock().lines() {
        let line = line.unwrap();
        if line.trim().is_empty() {
            continue;
        }
        let a = kv(&line);
        // a sequence takes a few seconds at most: a receive that blocks for good ends the process within a minute
        unsafe { libc::alarm(60) };
        let id: u64 = a["id"].parse().unwrap();
        let (tx, rx) = ipc::channel::<Vec<u8>>().unwrap();
        let mut tx = Some(tx);
        let mut out: Vec<serde_json::Value> = Vec::new();
        mark(&format!("timed {}", id));
        for op in a["ops"].split(',') {
            let (k, arg) = op.split_at(1);
            let nums: Vec<u64> = arg.split('/').filter(|x| !x.is_empty()).map(|x| x.parse().unwrap()).collect();
            let t0 = Instant::now();
            match k {
                "s" => {
                    if let Some(t) = &tx {
                        let _ = t.send(payload(id, nums[0] as usize));
                    }
                    continue;
                },
                "x" => {
                    // a complete message that is not a value of the receiver's type (one byte where a Vec<u8> needs a length)
                    if let Some(t) = &tx {
                        let _ = t.clone().to_opaque().to::<u8>().send(7);
                    }
                    continue;
                },
                "d" => {
                    tx = None;
                    continue;
                },
                "t" => out.push(json!({"op": op, "out": cls(rx.try_recv()), "us": t0.elapsed().as_micros() as u64})),
                "T" => {
                    let r = rx.try_recv_timeout(Duration::from_micros(nums[0]));
                    out.push(json!({"op": op, "out": cls(r), "us": t0.elapsed().as_micros() as u64}))
                },
                "F" => {
                    // a timed receive whose timeout (nums[0] us) ends in the MIDDLE of an incoming multi-fragment message: another thread
                    // starts sending after 10 ms and pauses nums[1] ms after the first fragment.  A message that has begun is finished
                    // (the rest is read blocking) and returned; it is never dropped half-way
                    let t = tx.take();
                    let pause = nums[1] as i64;
                    let h = std::thread::spawn(move || {
                        std::thread::sleep(Duration::from_millis(10));
                        delay_after_first(pause * 1000);
                        if let Some(t) = &t {
                            let _ = t.send(payload(id, 12000));
                        }
                        delay_after_first(0);
                        t
                    });
                    let r = rx.try_recv_timeout(Duration::from_micros(nums[0]));
                    let us = t0.elapsed().as_micros() as u64;
                    tx = h.join().unwrap();
                    out.push(json!({"op": op, "out": cls(r), "us": us}))
                },
                "I" => {
                    // a signal with a handler reaches the thread while it waits: poll() fails with EINTR (injected by the interposer)
                    eintr_every(1);
                    let r = rx.try_recv_timeout(Duration::from_micros(nums[0]));
                    eintr_every(0);
                    out.push(json!({"op": op, "out": cls(r), "us": t0.elapsed().as_micros() as u64}))
                },
                "b" => {
                    let r = rx.recv().map_err(TryRecvError::IpcError);
                    out.push(json!({"op": op, "out": cls(r), "us": t0.elapsed().as_micros() as u64}))
                },
                // blocking / timed receive while another thread sends (or drops the last sender) after nums[last] ms
                "B" | "W" | "H" => {
                    let delay = *nums.last().unwrap();
                    let t = tx.take();
                    let hang_up = k == "H";
                    let h = std::thread::spawn(move || {
                        std::thread::sleep(Duration::from_millis(delay));
                        match (t, hang_up) {
                            (Some(t), false) => {
                                let _ = t.send(vec![1, 2, 3]);
                                Some(t)
                            },
                            (Some(t), true) => {
                                drop(t);
                                None
                            },
                            (None, _) => None,
                        }
                    });
                    let r = if k == "B" {
                        // a watchdog: a blocking receive that fails at once (EAGAIN) or never returns is the bug we look for
                        rx.recv().map_err(TryRecvError::IpcError)
                    } else {
                        rx.try_recv_timeout(Duration::from_micros(nums[0]))
                    };
                    let us = t0.elapsed().as_micros() as u64;
                    tx = h.join().unwrap();
                    out.push(json!({"op": op, "out": cls(r), "us": us}))
                },
                _ => {},
            }
        }
        mark(&format!("endtimed {}", id));
        println!("{}", json!({"kind":"timed","id":id,"results":out}));
    }
}
