//! vh: harness that drives the real ipc-channel crate for the correspondence check.
mod frag;
mod shm;
mod util;

fn main() {
    let args: Vec<String> = std::env::args().collect();
    if args.len() < 2 {
        eprintln!("usage: vh <driver>");
        std::process::exit(2);
    }
    match args[1].as_str() {
        "frag" => frag::run(),
        "shm" => shm::run(),
        other => {
            eprintln!("unknown driver {}", other);
            std::process::exit(2);
        },
    }
}
