//! vh: harness that drives the real ipc-channel crate for the correspondence check.
mod api;
#[cfg(feature = "async")]
mod asyncd;
mod codec;
mod conc;
mod crash;
mod frag;
mod nestrecv;
mod nullser;
mod prog;
mod res;
mod routerd;
mod rset;
mod script;
mod server;
mod shm;
mod timed;
mod util;
mod vanish;
mod wake;

fn main() {
    let args: Vec<String> = std::env::args().collect();
    if args.len() < 2 {
        eprintln!("usage: vh <driver>");
        std::process::exit(2);
    }
    // force the crate's lazily computed send-buffer size now, so that its probe socketpair
    // does not show up inside the first traced operation
    let _ = ipc_channel::platform::OsIpcSender::get_max_fragment_size();
    match args[1].as_str() {
        "frag" => frag::run(),
        "conc" => conc::run(),
        "codec" => codec::run(),
        "prog" => prog::run(),
        "api" => api::run(),
        "res" => res::run(),
        "nestrecv" => nestrecv::run(),
        "wake" => wake::run(),
        "server" => server::run(),
        "client" => server::run_client(&args[2..]),
        "timed" => timed::run(),
        #[cfg(feature = "async")]
        "async" => asyncd::run(),
        "router" => routerd::run(),
        "rset" => rset::run(),
        "script" => script::run(),
        "vanish" => vanish::run(),
        "crash" => crash::run(),
        "shm" => shm::run(),
        other => {
            eprintln!("unknown driver {}", other);
            std::process::exit(2);
        },
    }
}
