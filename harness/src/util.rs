//! Shared helpers: shim control surface (resolved at run time so the harness also runs without
//! the shim), deterministic payloads, descriptor census, watchdog.
use std::ffi::CString;
use std::sync::atomic::{AtomicBool, Ordering};
use std::time::Duration;

fn sym(name: &str) -> *mut libc::c_void {
    let c = CString::new(name).unwrap();
    unsafe { libc::dlsym(libc::RTLD_DEFAULT, c.as_ptr()) }
}

pub fn shim_present() -> bool {
    !sym("vshim_mark").is_null()
}

pub fn mark(label: &str) {
    let p = sym("vshim_mark");
    if !p.is_null() {
        let f: extern "C" fn(*const libc::c_char) = unsafe { std::mem::transmute(p) };
        let c = CString::new(label).unwrap();
        f(c.as_ptr());
    }
}

/// fail the following transmission attempts of this thread according to `pat` ('1' = ENOBUFS)
pub fn faults(pat: &str) {
    let p = sym("vshim_faults");
    if !p.is_null() {
        let f: extern "C" fn(*const libc::c_char) = unsafe { std::mem::transmute(p) };
        let c = CString::new(pat).unwrap();
        f(c.as_ptr());
    }
}

fn call_long(name: &str, v: libc::c_long) {
    let p = sym(name);
    if !p.is_null() {
        let f: extern "C" fn(libc::c_long) = unsafe { std::mem::transmute(p) };
        f(v);
    }
}
pub fn eintr_every(n: i64) {
    call_long("vshim_eintr", n as libc::c_long)
}
/// the n-th following shared file mapping of this process fails with ENOMEM
pub fn mmap_fail(n: i64) {
    call_long("vshim_mmap_fail", n as libc::c_long)
}
/// the n-th following recv() of this thread on a tracked socket fails with EINTR (a signal without SA_RESTART)
pub fn recv_eintr(n: i64) {
    call_long("vshim_recv_eintr", n as libc::c_long)
}
pub fn arm_kill(k: i64) {
    call_long("vshim_arm_kill", k as libc::c_long)
}
pub fn delay_after_first(us: i64) {
    call_long("vshim_delay_after_first", us as libc::c_long)
}
pub fn reset_calls() {
    let p = sym("vshim_reset_calls");
    if !p.is_null() {
        let f: extern "C" fn() = unsafe { std::mem::transmute(p) };
        f();
    }
}
pub fn calls() -> i64 {
    let p = sym("vshim_calls");
    if p.is_null() {
        return -1;
    }
    let f: extern "C" fn() -> libc::c_long = unsafe { std::mem::transmute(p) };
    f() as i64
}

/// deterministic payload: byte i of message `tag`
pub fn payload(tag: u64, len: usize) -> Vec<u8> {
    let mut v = Vec::with_capacity(len);
    let mut x = tag.wrapping_mul(0x9E3779B97F4A7C15) ^ 0xD1B54A32D192ED03;
    let mut i = 0;
    while i < len {
        x ^= x << 13;
        x ^= x >> 7;
        x ^= x << 17;
        let b = x.to_le_bytes();
        let n = std::cmp::min(8, len - i);
        v.extend_from_slice(&b[..n]);
        i += n;
    }
    v
}

pub fn checksum(data: &[u8]) -> u64 {
    let mut h: u64 = 0xcbf29ce484222325;
    for &b in data {
        h ^= b as u64;
        h = h.wrapping_mul(0x100000001b3);
    }
    h
}

/// open descriptors of this process (numbers), excluding the directory handle used to list them
pub fn open_fds() -> Vec<i32> {
    let mut v = Vec::new();
    if let Ok(rd) = std::fs::read_dir("/proc/self/fd") {
        for e in rd.flatten() {
            if let Ok(n) = e.file_name().to_string_lossy().parse::<i32>() {
                // skip the shim's log descriptor and the dir handle itself (it disappears)
                if n >= 1000 {
                    continue;
                }
                if std::fs::read_link(e.path()).is_ok() {
                    v.push(n);
                }
            }
        }
    }
    v.sort();
    v
}

pub fn fd_targets() -> Vec<(i32, String)> {
    let mut v = Vec::new();
    if let Ok(rd) = std::fs::read_dir("/proc/self/fd") {
        for e in rd.flatten() {
            if let Ok(n) = e.file_name().to_string_lossy().parse::<i32>() {
                if n >= 1000 {
                    continue;
                }
                if let Ok(t) = std::fs::read_link(e.path()) {
                    let t = t.to_string_lossy().to_string();
                    if t.contains("/proc/") && t.ends_with("/fd") {
                        continue;
                    }
                    v.push((n, t));
                }
            }
        }
    }
    v.sort();
    v
}

/// number of shared-memory style mappings (shm / memfd) in this process
pub fn shm_mappings() -> usize {
    std::fs::read_to_string("/proc/self/maps")
        .map(|s| {
            s.lines()
                .filter(|l| l.contains("ipc-channel-shared-memory") || l.contains("/memfd:"))
                .count()
        })
        .unwrap_or(0)
}

/// run `f` on a helper thread; None if it did not finish within `ms` (the thread is leaked)
pub fn with_watchdog<T: Send + 'static, F: FnOnce() -> T + Send + 'static>(ms: u64, f: F) -> Option<T> {
    let (tx, rx) = crossbeam_channel::bounded(1);
    std::thread::spawn(move || {
        let r = f();
        let _ = tx.send(r);
    });
    rx.recv_timeout(Duration::from_millis(ms)).ok()
}

pub static PANICKED: AtomicBool = AtomicBool::new(false);
pub fn install_panic_flag() {
    let prev = std::panic::take_hook();
    std::panic::set_hook(Box::new(move |info| {
        PANICKED.store(true, Ordering::SeqCst);
        prev(info);
    }));
}

pub fn kv(line: &str) -> std::collections::HashMap<String, String> {
    // every driver parses one input line per scenario with this function: (re)arm a process-wide alarm, so that a main thread that
    // is stuck for good (a deadlock the scenario's own watchdogs cannot break) ends the process instead of outlasting the caller
    unsafe { libc::alarm(300) };
    let mut m = std::collections::HashMap::new();
    for tok in line.split_whitespace() {
        if let Some((k, v)) = tok.split_once('=') {
            m.insert(k.to_string(), v.to_string());
        } else {
            m.insert("op".to_string(), tok.to_string());
        }
    }
    m
}

pub fn errno_of_io(e: &std::io::Error) -> i32 {
    e.raw_os_error().unwrap_or(-1)
}

/// Backend-independent classification of a platform-level receive error, through the crate's own
/// conversion to `ipc::TryRecvError` (the conversion to io::Error differs between back ends).
pub fn classify_recv<E: Into<ipc_channel::ipc::TryRecvError>>(e: E) -> String {
    match e.into() {
        ipc_channel::ipc::TryRecvError::Empty => "Empty".into(),
        ipc_channel::ipc::TryRecvError::IpcError(ipc_channel::ipc::IpcError::Disconnected) => "Disconnected".into(),
        ipc_channel::ipc::TryRecvError::IpcError(ipc_channel::ipc::IpcError::Io(io)) => match io.raw_os_error() {
            Some(c) => format!("Errno({})", c),
            None => format!("Other({:?})", io.kind()),
        },
        ipc_channel::ipc::TryRecvError::IpcError(other) => format!("Other({:?})", other),
    }
}
