//! `server` driver (C08): one-shot server rendezvous in every order of {connect, send, client exit, accept},
//! client as thread, forked child or spawned process; many servers alive at once.
use crate::util::*;
use ipc_channel::ipc::{self, IpcError, IpcOneShotServer, IpcSender, TryRecvError};
use serde::{Deserialize, Serialize};
use serde_json::json;
use std::io::BufRead;
use std::time::Duration;

#[derive(Serialize, Deserialize)]
struct M {
    seq: u32,
    pad: Vec<u8>,
    back: Option<IpcSender<u32>>,
}

fn client(name: &str, sizes: &[usize], first: usize, upto: usize, back: Option<IpcSender<u32>>, tx_in: Option<IpcSender<M>>) -> Option<IpcSender<M>> {
    let tx = match tx_in {
        Some(t) => t,
        None => match IpcSender::<M>::connect(name.to_string()) {
            Ok(t) => t,
            Err(_) => return None,
        },
    };
    for q in first..upto {
        let b = if q == 0 { back.clone() } else { None };
        let _ = tx.send(M { seq: q as u32, pad: payload(q as u64, sizes[q]), back: b });
    }
    Some(tx)
}

pub fn run_client(args: &[String]) {
    // vh client <name> <sizes comma separated>
    let sizes: Vec<usize> = args[1].split(',').map(|x| x.parse().unwrap()).collect();
    let _ = client(&args[0], &sizes, 0, sizes.len(), None, None);
}

fn tmp_entries() -> usize {
    std::fs::read_dir(std::env::temp_dir()).map(|r| r.count()).unwrap_or(0)
}

pub fn run() {
    let stdin = std::io::stdin();
    for line in stdin.lock().lines() {
        let line = line.unwrap();
        if line.trim().is_empty() {
            continue;
        }
        let a = kv(&line);
        let id: u64 = a["id"].parse().unwrap();
        if a.get("op").map(|s| s == "many").unwrap_or(false) {
            let m: usize = a["n"].parse().unwrap();
            let (f0, t0) = (open_fds().len(), tmp_entries());
            let mut servers = Vec::new();
            let mut names = Vec::new();
            for _ in 0..m {
                let (s, n) = IpcOneShotServer::<u32>::new().unwrap();
                servers.push(s);
                names.push(n);
            }
            let distinct = names.iter().collect::<std::collections::HashSet<_>>().len() == m;
            let exist = names.iter().all(|n| std::path::Path::new(n).exists());
            let tmid = tmp_entries();
            drop(servers);
            let gone = names.iter().all(|n| !std::path::Path::new(n).exists());
            println!(
                "{}",
                json!({"kind":"many","id":id,"n":m,"distinct":distinct,"exist":exist,"tmp_during":tmid - t0,"gone":gone,
                       "fds_before":f0,"fds_after":open_fds().len(),"tmp_before":t0,"tmp_after":tmp_entries()})
            );
            continue;
        }
        if a.get("op").map(|s| s == "fullfd").unwrap_or(false) {
            // the server goes away (unused) while the process's descriptor table is FULL: what it created in the file system must
            // still be removed (whatever the clean-up needs, the server's own descriptor is there to be released first)
            let t0 = tmp_entries();
            let (server, name) = IpcOneShotServer::<M>::new().unwrap();
            let mut fill = Vec::new();
            let mut lim = libc::rlimit { rlim_cur: 0, rlim_max: 0 };
            unsafe { libc::getrlimit(libc::RLIMIT_NOFILE, &mut lim) };
            let old = lim;
            // a small table, so that filling it is quick: everything open now plus a few
            let top = open_fds().iter().max().copied().unwrap_or(10) as u64 + 40;
            lim.rlim_cur = top.min(old.rlim_max);
            unsafe { libc::setrlimit(libc::RLIMIT_NOFILE, &lim) };
            loop {
                let fd = unsafe { libc::open(b"/dev/null\0".as_ptr() as *const libc::c_char, libc::O_RDONLY | libc::O_CLOEXEC) };
                if fd < 0 {
                    break;
                }
                fill.push(fd);
            }
            drop(server);
            for fd in fill.iter() {
                unsafe { libc::close(*fd) };
            }
            unsafe { libc::setrlimit(libc::RLIMIT_NOFILE, &old) };
            let gone = !std::path::Path::new(&name).exists();
            let dir_gone = std::path::Path::new(&name).parent().map(|p| !p.exists()).unwrap_or(true);
            println!("{}", json!({"kind":"fullfd","id":id,"filled":fill.len(),"gone":gone,"dir_gone":dir_gone,"tmp_before":t0,"tmp_after":tmp_entries()}));
            continue;
        }
        if a.get("op").map(|s| s == "forkaccept").unwrap_or(false) {
            // the server is created in one process and accepted (or dropped unused) in a forked child - the hand-to-a-worker pattern:
            // once accept has returned there, or the server was dropped there, nothing created for the rendezvous may remain
            let unused = a.get("unused").map(|s| s == "1").unwrap_or(false);
            let t0 = tmp_entries();
            let (server, name) = IpcOneShotServer::<M>::new().unwrap();
            let pid = unsafe { libc::fork() };
            if pid == 0 {
                let code = if unused {
                    drop(server);
                    0
                } else {
                    let name2 = name.clone();
                    let th = std::thread::spawn(move || {
                        let _ = client(&name2, &[10, 5000, 10], 0, 3, None, None);
                    });
                    let r = match server.accept() {
                        Ok((rx, first)) => {
                            let mut n = 1;
                            while rx.try_recv_timeout(Duration::from_secs(3)).is_ok() {
                                n += 1;
                            }
                            if first.seq == 0 && n == 3 { 0 } else { 2 }
                        },
                        Err(_) => 1,
                    };
                    let _ = th.join();
                    r
                };
                unsafe { libc::_exit(code) };
            }
            // the creating process never uses its copy of the object
            std::mem::forget(server);
            let mut st = 0;
            unsafe { libc::waitpid(pid, &mut st, 0) };
            let child = if libc::WIFEXITED(st) { libc::WEXITSTATUS(st) } else { -1 };
            let gone = !std::path::Path::new(&name).exists();
            let dir_gone = std::path::Path::new(&name).parent().map(|p| !p.exists()).unwrap_or(true);
            println!("{}", json!({"kind":"forkaccept","id":id,"unused":unused,"child":child,"gone":gone,"dir_gone":dir_gone,"tmp_before":t0,"tmp_after":tmp_entries()}));
            continue;
        }
        if a.get("op").map(|s| s == "noshow").unwrap_or(false) {
            // a client that connects and goes away without ever sending: accept must return (an error), and nothing
            // created for the rendezvous - listener, connection, socket file, temp dir - may remain afterwards
            let order = a["order"].clone(); // accept_first | connect_first
            let kind = a["client"].clone(); // thread | fork
            let (f0, t0) = (open_fds().len(), tmp_entries());
            let (res, gone) = {
                let (server, name) = IpcOneShotServer::<M>::new().unwrap();
                let delay = if order == "accept_first" { 60 } else { 0 };
                let name2 = name.clone();
                let mut th = None;
                let mut child_pid = 0;
                if kind == "thread" {
                    th = Some(std::thread::spawn(move || {
                        std::thread::sleep(Duration::from_millis(delay));
                        let tx = IpcSender::<M>::connect(name2);
                        drop(tx);
                    }));
                } else {
                    let pid = unsafe { libc::fork() };
                    if pid == 0 {
                        std::thread::sleep(Duration::from_millis(delay));
                        let tx = IpcSender::<M>::connect(name2);
                        drop(tx);
                        unsafe { libc::_exit(0) };
                    }
                    child_pid = pid;
                }
                if order == "connect_first" {
                    if let Some(t) = th.take() {
                        let _ = t.join();
                    }
                    if child_pid != 0 {
                        let mut st = 0;
                        unsafe { libc::waitpid(child_pid, &mut st, 0) };
                        child_pid = 0;
                    }
                }
                let acc = with_watchdog(10_000, move || match server.accept() {
                    Ok((rx, m)) => {
                        drop(rx);
                        format!("Ok seq={}", m.seq)
                    },
                    Err(e) => format!("Err {:?}", e).chars().take(80).collect::<String>(),
                });
                if let Some(t) = th.take() {
                    let _ = t.join();
                }
                if child_pid != 0 {
                    let mut st = 0;
                    unsafe { libc::waitpid(child_pid, &mut st, 0) };
                }
                (acc.unwrap_or_else(|| "hang".to_string()), !std::path::Path::new(&name).exists())
            };
            println!(
                "{}",
                json!({"kind":"noshow","id":id,"order":order,"client":kind,"accept":res,"gone":gone,
                       "fds_before":f0,"fds_after":open_fds().len(),"tmp_before":t0,"tmp_after":tmp_entries()})
            );
            continue;
        }
        let order = a["order"].clone(); // accept_first | connect_first | mid
        let kind = a["client"].clone(); // thread | fork | spawn
        let sizes: Vec<usize> = a["sizes"].split(',').map(|x| x.parse().unwrap()).collect();
        let n = sizes.len();
        let (f0, t0) = (open_fds().len(), tmp_entries());
        let (accepted, seqs, intact, ended, back_ok, exists_before_accept, name_len) = {
            let (server, name) = IpcOneShotServer::<M>::new().unwrap();
            let (btx, brx) = ipc::channel::<u32>().unwrap();
            let mut child_pid = 0;
            let mut child = None;
            let mut th = None;
            let mid_k = if order == "mid" { std::cmp::max(1, n / 2) } else { n };
            let delay = if order == "accept_first" { 40 } else { 0 };
            let name2 = name.clone();
            let sizes2 = sizes.clone();
            let back = if kind == "spawn" { None } else { Some(btx.clone()) };
            // the client: connects, sends messages [0, mid_k), (mid: waits until told), sends the rest, exits
            let (go_tx, go_rx) = ipc::channel::<()>().unwrap();
            match kind.as_str() {
                "thread" => {
                    th = Some(std::thread::spawn(move || {
                        std::thread::sleep(Duration::from_millis(delay));
                        let tx = client(&name2, &sizes2, 0, mid_k, back, None);
                        if mid_k < sizes2.len() {
                            let _ = go_rx.recv();
                            let _ = client(&name2, &sizes2, mid_k, sizes2.len(), None, tx);
                        }
                    }));
                },
                "fork" => {
                    let pid = unsafe { libc::fork() };
                    if pid == 0 {
                        std::thread::sleep(Duration::from_millis(delay));
                        let tx = client(&name2, &sizes2, 0, mid_k, back, None);
                        if mid_k < sizes2.len() {
                            let _ = go_rx.recv();
                            let _ = client(&name2, &sizes2, mid_k, sizes2.len(), None, tx);
                        }
                        unsafe { libc::_exit(0) };
                    }
                    child_pid = pid;
                },
                _ => {
                    // spawned process: sends everything at once (no attachment, no mid split)
                    let exe = std::env::current_exe().unwrap();
                    let c = std::process::Command::new(exe)
                        .arg("client")
                        .arg(&name)
                        .arg(sizes.iter().map(|x| x.to_string()).collect::<Vec<_>>().join(","))
                        .spawn()
                        .unwrap();
                    child = Some(c);
                },
            }
            drop(btx);
            if order == "connect_first" || (order == "mid" && kind != "spawn") {
                // let the client get ahead: connected, its first batch sent (and, for connect_first, gone)
                if order == "connect_first" {
                    if let Some(t) = th.take() {
                        let _ = t.join();
                    }
                    if child_pid != 0 {
                        let mut st = 0;
                        unsafe { libc::waitpid(child_pid, &mut st, 0) };
                        child_pid = 0;
                    }
                    if let Some(mut c) = child.take() {
                        let _ = c.wait();
                    }
                } else {
                    std::thread::sleep(Duration::from_millis(40));
                }
            }
            let exists_before_accept = std::path::Path::new(&name).exists();
            let acc = with_watchdog(10_000, move || server.accept());
            let mut seqs: Vec<i64> = Vec::new();
            let mut intact = true;
            let mut ended = String::new();
            let mut back_ok = serde_json::Value::Null;
            let accepted = match acc {
                Some(Ok((rx, first))) => {
                    seqs.push(first.seq as i64);
                    intact &= first.pad == payload(first.seq as u64, sizes[first.seq as usize % n]);
                    if let Some(b) = first.back {
                        let _ = b.send(4242);
                        back_ok = json!(matches!(brx.try_recv_timeout(Duration::from_secs(2)), Ok(4242)));
                    }
                    let gone_after_accept = !std::path::Path::new(&name).exists();
                    let _ = go_tx.send(());
                    loop {
                        match rx.try_recv_timeout(Duration::from_secs(5)) {
                            Ok(m) => {
                                intact &= m.pad == payload(m.seq as u64, sizes[m.seq as usize % n]);
                                seqs.push(m.seq as i64);
                            },
                            Err(TryRecvError::IpcError(IpcError::Disconnected)) => {
                                ended = "Disconnected".into();
                                break;
                            },
                            Err(TryRecvError::Empty) => {
                                ended = "Timeout".into();
                                break;
                            },
                            Err(e) => {
                                ended = format!("{:?}", e);
                                break;
                            },
                        }
                    }
                    drop(rx);
                    json!({"ok": true, "gone_after_accept": gone_after_accept})
                },
                Some(Err(e)) => json!({"ok": false, "err": format!("{:?}", e)}),
                None => json!({"ok": false, "err": "hang"}),
            };
            drop(go_tx);
            if let Some(t) = th.take() {
                let _ = t.join();
            }
            if child_pid != 0 {
                let mut st = 0;
                unsafe { libc::waitpid(child_pid, &mut st, 0) };
            }
            if let Some(mut c) = child.take() {
                let _ = c.wait();
            }
            drop(brx);
            (accepted, seqs, intact, ended, back_ok, exists_before_accept, name.len())
        };
        println!(
            "{}",
            json!({"kind":"server","id":id,"order":order,"client":kind,"n":n,"accepted":accepted,"seqs":seqs,"intact":intact,"ended":ended,"back_ok":back_ok,
                   "exists_before_accept":exists_before_accept,"name_len":name_len,"fds_before":f0,"fds_after":open_fds().len(),"tmp_before":t0,"tmp_after":tmp_entries()})
        );
    }
}
