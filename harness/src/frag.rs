//! `frag` driver: one send / one receive at platform, bytes or typed level, under the shim trace.
//! Serves C01 C13 C15 C18 (and the per-send call sequence checked for C02).
use crate::util::*;
use ipc_channel::ipc::{self, IpcReceiver, IpcSender, IpcSharedMemory};
use ipc_channel::platform::{self, OsIpcChannel, OsIpcSender, OsIpcSharedMemory};
use serde::{Deserialize, Serialize};
use serde_json::json;
use std::io::BufRead;

#[derive(Serialize, Deserialize)]
struct Typed {
    data: Vec<u8>,
    senders: Vec<IpcSender<Vec<u8>>>,
    receivers: Vec<IpcReceiver<Vec<u8>>>,
    regions: Vec<IpcSharedMemory>,
}

/// a value whose serialisation writes `0` bytes of output and then reports an error
struct Failing(usize);
impl Serialize for Failing {
    fn serialize<S: serde::Serializer>(&self, serializer: S) -> Result<S::Ok, S::Error> {
        use serde::ser::SerializeTuple;
        let mut t = serializer.serialize_tuple(self.0 + 1)?;
        for i in 0..self.0 {
            t.serialize_element(&(i as u8))?;
        }
        Err(serde::ser::Error::custom("scripted failure"))
    }
}
impl<'de> Deserialize<'de> for Failing {
    fn deserialize<D: serde::Deserializer<'de>>(_: D) -> Result<Self, D::Error> {
        Err(serde::de::Error::custom("Failing is send-only"))
    }
}

fn watchdog_secs() -> u64 {
    std::env::var("VH_WATCHDOG").ok().and_then(|s| s.parse().ok()).unwrap_or(8)
}

fn region_bytes(id: u64, i: usize) -> Vec<u8> {
    payload(id * 1000 + 77 + i as u64, 100 + 37 * i)
}

pub fn run() {
    let stdin = std::io::stdin();
    println!(
        "{}",
        json!({"kind":"hello","max_fragment_size": OsIpcSender::get_max_fragment_size(), "shim": shim_present()})
    );
    let mut hangs = 0;
    for line in stdin.lock().lines() {
        let line = line.unwrap();
        if line.trim().is_empty() {
            continue;
        }
        if hangs >= 2 {
            // every hang costs a watchdog period: two are enough to report, skip the rest
            println!("{}", json!({"kind":"aborted","reason":"two receivers hung"}));
            break;
        }
        let a = kv(&line);
        let id: u64 = a["id"].parse().unwrap();
        let len: usize = a["len"].parse().unwrap();
        let nsend: usize = a.get("nsend").map(|s| s.parse().unwrap()).unwrap_or(0);
        let nrecv: usize = a.get("nrecv").map(|s| s.parse().unwrap()).unwrap_or(0);
        let nshm: usize = a.get("nshm").map(|s| s.parse().unwrap()).unwrap_or(0);
        let pat = a.get("faults").cloned().unwrap_or_default();
        let level = a.get("level").cloned().unwrap_or_else(|| "platform".into());
        let out = match level.as_str() {
            "platform" => platform_case(id, len, nsend, nrecv, nshm, &pat, a.get("rintr").map(|s| s.parse().unwrap()).unwrap_or(0),
                                        a.get("late").map(|s| s == "1").unwrap_or(false)),
            "bytes" => bytes_case(id, len, &pat),
            "typed" => typed_case(id, len, nsend, nrecv, nshm, &pat, a.get("prefail").map(|s| s == "1").unwrap_or(false),
                                  a.get("samereg").map(|s| s == "1").unwrap_or(false)),
            _ => json!({"error":"level"}),
        };
        if out["recv"].get("hang").is_some() {
            hangs += 1;
        }
        println!("{}", out);
    }
}

fn platform_case(id: u64, len: usize, nsend: usize, nrecv: usize, nshm: usize, pat: &str, rintr: i64, late: bool) -> serde_json::Value {
    let fds_before = open_fds().len();
    let data = payload(id, len);
    let (tx, rx) = platform::channel().unwrap();
    // attachments: we keep the opposite ends to probe identity afterwards
    let mut kept_rx = Vec::new();
    let mut kept_tx = Vec::new();
    let mut channels = Vec::new();
    for _ in 0..nsend {
        let (s, r) = platform::channel().unwrap();
        channels.push(OsIpcChannel::Sender(s));
        kept_rx.push(r);
    }
    for _ in 0..nrecv {
        let (s, r) = platform::channel().unwrap();
        channels.push(OsIpcChannel::Receiver(r));
        kept_tx.push(s);
    }
    let mut regions = Vec::new();
    for i in 0..nshm {
        regions.push(OsIpcSharedMemory::from_bytes(&region_bytes(id, i)));
    }
    // receiver thread: takes the first message that arrives.  late = it only starts to receive once the send has returned (the
    // whole message is then sitting in the socket buffers, sized by whatever the sender believed at the time)
    let (rtx, rrx) = crossbeam_channel::bounded(1);
    let (go_tx, go_rx) = crossbeam_channel::bounded::<()>(1);
    if !late {
        let _ = go_tx.send(());
    }
    let h = std::thread::spawn(move || {
        let _ = go_rx.recv();
        mark(&format!("recv {}", id));
        // rintr = k: the receiver's k-th read of a follow-up fragment is interrupted by a signal (EINTR)
        recv_eintr(rintr);
        let r = rx.recv();
        recv_eintr(0);
        mark(&format!("endrecv {}", id));
        let _ = rtx.send(r.map_err(|e| std::io::Error::from(e)));
        rx
    });
    mark(&format!("send {}", id));
    faults(pat);
    let res = tx.send(&data, channels, regions);
    faults("");
    mark(&format!("endsend {}", id));
    if late {
        let _ = go_tx.send(());
    }
    let send_res = match res {
        Ok(()) => "Ok".to_string(),
        Err(e) => format!("Err({})", errno_of_io(&std::io::Error::from(e))),
    };
    let mut followup = serde_json::Value::Null;
    if send_res != "Ok" {
        // the channel must stay usable; the receiver must see exactly this message next
        let r = tx.send(b"after", vec![], vec![]);
        followup = json!(r.is_ok());
    }
    let got = rrx.recv_timeout(std::time::Duration::from_secs(watchdog_secs()));
    let recv_json = match got {
        Err(_) => json!({"hang": true}),
        Ok(Err(e)) => json!({"err": format!("{:?}", e.kind()), "errno": errno_of_io(&e)}),
        Ok(Ok((d, mut chans, regs))) => {
            let expect: &[u8] = if send_res == "Ok" { &data } else { b"after" };
            let mut probes_ok = true;
            let mut probe_detail = Vec::new();
            if send_res == "Ok" {
                if chans.len() == nsend + nrecv && regs.len() == nshm {
                    for (i, c) in chans.iter_mut().enumerate() {
                        if i < nsend {
                            let s = c.to_sender();
                            let nonce = [i as u8, 0xAB, (id & 0xff) as u8];
                            let ok = s.send(&nonce, vec![], vec![]).is_ok()
                                && matches!(kept_rx[i].try_recv(), Ok((ref d, _, _)) if d[..] == nonce);
                            probes_ok &= ok;
                            probe_detail.push(ok);
                        } else {
                            let j = i - nsend;
                            let r = c.to_receiver();
                            let nonce = [j as u8, 0xCD, (id & 0xff) as u8];
                            let ok = kept_tx[j].send(&nonce, vec![], vec![]).is_ok()
                                && matches!(r.try_recv(), Ok((ref d, _, _)) if d[..] == nonce);
                            probes_ok &= ok;
                            probe_detail.push(ok);
                        }
                    }
                    for (i, r) in regs.iter().enumerate() {
                        let ok = r[..] == region_bytes(id, i)[..];
                        probes_ok &= ok;
                        probe_detail.push(ok);
                    }
                } else {
                    probes_ok = false;
                    // release what did arrive so that descriptors do not pile up
                    for c in chans.iter_mut() {
                        drop(c.to_receiver());
                    }
                }
            } else {
                for c in chans.iter_mut() {
                    drop(c.to_receiver());
                }
            }
            json!({"len": d.len(), "equal": d[..] == expect[..], "nchannels": chans.len(), "nregions": regs.len(),
                   "probes_ok": probes_ok, "probes": probe_detail})
        },
    };
    let hang = recv_json.get("hang").is_some();
    drop(tx);
    drop(kept_rx);
    drop(kept_tx);
    if !hang {
        let _ = h.join();
    }
    let fds_after = open_fds().len();
    json!({"kind":"frag","level":"platform","id":id,"len":len,"nsend":nsend,"nrecv":nrecv,"nshm":nshm,"faults":pat,
           "send":send_res,"followup_ok":followup,"recv":recv_json,"fds_before":fds_before,"fds_after":fds_after})
}

fn bytes_case(id: u64, len: usize, pat: &str) -> serde_json::Value {
    let data = payload(id, len);
    let (tx, rx) = ipc::bytes_channel().unwrap();
    let (rtx, rrx) = crossbeam_channel::bounded(1);
    let h = std::thread::spawn(move || {
        mark(&format!("recv {}", id));
        // the two receive variants of the bytes receiver in turn
        let r = match id % 2 {
            0 => rx.recv().map_err(|e| format!("{:?}", e)),
            _ => {
                let t0 = std::time::Instant::now();
                loop {
                    match rx.try_recv() {
                        Err(ipc::TryRecvError::Empty) if t0.elapsed().as_secs() < watchdog_secs() => std::thread::yield_now(),
                        other => break other.map_err(|e| format!("{:?}", e)),
                    }
                }
            },
        };
        mark(&format!("endrecv {}", id));
        let _ = rtx.send(r);
        rx
    });
    mark(&format!("send {}", id));
    faults(pat);
    let res = tx.send(&data);
    faults("");
    mark(&format!("endsend {}", id));
    let send_res = match res {
        Ok(()) => "Ok".to_string(),
        Err(e) => format!("Err({})", errno_of_io(&e)),
    };
    let mut followup = serde_json::Value::Null;
    if send_res != "Ok" {
        followup = json!(tx.send(b"after").is_ok());
    }
    let recv_json = match rrx.recv_timeout(std::time::Duration::from_secs(watchdog_secs())) {
        Err(_) => json!({"hang": true}),
        Ok(Err(e)) => json!({"err": e}),
        Ok(Ok(d)) => {
            let expect: &[u8] = if send_res == "Ok" { &data } else { b"after" };
            json!({"len": d.len(), "equal": d[..] == expect[..], "nchannels": 0, "nregions": 0, "probes_ok": true})
        },
    };
    if recv_json.get("hang").is_none() {
        let _ = h.join();
    }
    json!({"kind":"frag","level":"bytes","id":id,"len":len,"nsend":0,"nrecv":0,"nshm":0,"faults":pat,
           "send":send_res,"followup_ok":followup,"recv":recv_json})
}

fn typed_case(id: u64, len: usize, nsend: usize, nrecv: usize, nshm: usize, pat: &str, prefail: bool, samereg: bool) -> serde_json::Value {
    // samereg: all regions of the value have byte-identical contents (separately created objects)
    let region_bytes = move |id: u64, i: usize| region_bytes(id, if samereg { 0 } else { i });
    let data = payload(id, len);
    // an earlier send on this thread whose serialisation failed half-way must not influence the next message
    let mut prefail_res = serde_json::Value::Null;
    if prefail {
        let (ftx, _frx) = ipc::channel::<Failing>().unwrap();
        prefail_res = json!(ftx.send(Failing(1 + (id as usize % 300))).is_err());
    }
    let (tx, rx) = ipc::channel::<Typed>().unwrap();
    let mut kept_rx = Vec::new();
    let mut kept_tx = Vec::new();
    let mut v = Typed { data: data.clone(), senders: vec![], receivers: vec![], regions: vec![] };
    for _ in 0..nsend {
        let (s, r) = ipc::channel::<Vec<u8>>().unwrap();
        v.senders.push(s);
        kept_rx.push(r);
    }
    for _ in 0..nrecv {
        let (s, r) = ipc::channel::<Vec<u8>>().unwrap();
        v.receivers.push(r);
        kept_tx.push(s);
    }
    for i in 0..nshm {
        v.regions.push(IpcSharedMemory::from_bytes(&region_bytes(id, i)));
    }
    let wire_len = bincode::serialized_size(&v.data).unwrap() as usize + 8 * (nsend + nrecv + nshm) + 24;
    let (rtx, rrx) = crossbeam_channel::bounded(1);
    let h = std::thread::spawn(move || {
        mark(&format!("recv {}", id));
        let r = rx.recv();
        mark(&format!("endrecv {}", id));
        let _ = rtx.send(r.map_err(|e| format!("{:?}", e)));
        rx
    });
    mark(&format!("send {}", id));
    faults(pat);
    let res = tx.send(v);
    faults("");
    mark(&format!("endsend {}", id));
    let send_res = match res {
        Ok(()) => "Ok".to_string(),
        Err(e) => match *e {
            bincode::ErrorKind::Io(ref io) => format!("Err({})", errno_of_io(io)),
            ref other => format!("Err({:?})", other),
        },
    };
    let mut followup = serde_json::Value::Null;
    if send_res != "Ok" {
        let after = Typed { data: b"after".to_vec(), senders: vec![], receivers: vec![], regions: vec![] };
        followup = json!(tx.send(after).is_ok());
    }
    let recv_json = match rrx.recv_timeout(std::time::Duration::from_secs(watchdog_secs())) {
        Err(_) => json!({"hang": true}),
        Ok(Err(e)) => json!({"err": e}),
        Ok(Ok(t)) => {
            let expect: &[u8] = if send_res == "Ok" { &data } else { b"after" };
            let mut probes_ok = true;
            if send_res == "Ok" {
                probes_ok &= t.senders.len() == nsend && t.receivers.len() == nrecv && t.regions.len() == nshm;
                if probes_ok {
                    for (i, s) in t.senders.iter().enumerate() {
                        let nonce = vec![i as u8, 0xAB, (id & 0xff) as u8];
                        probes_ok &= s.send(nonce.clone()).is_ok() && matches!(kept_rx[i].try_recv(), Ok(ref d) if *d == nonce);
                    }
                    for (j, r) in t.receivers.iter().enumerate() {
                        let nonce = vec![j as u8, 0xCD, (id & 0xff) as u8];
                        probes_ok &= kept_tx[j].send(nonce.clone()).is_ok() && matches!(r.try_recv(), Ok(ref d) if *d == nonce);
                    }
                    for (i, r) in t.regions.iter().enumerate() {
                        probes_ok &= r[..] == region_bytes(id, i)[..];
                    }
                }
            }
            json!({"len": t.data.len(), "equal": t.data[..] == expect[..], "nchannels": t.senders.len() + t.receivers.len(),
                   "nregions": t.regions.len(), "probes_ok": probes_ok})
        },
    };
    if recv_json.get("hang").is_none() {
        let _ = h.join();
    }
    json!({"kind":"frag","level":"typed","id":id,"len":len,"wire_len":wire_len,"nsend":nsend,"nrecv":nrecv,"nshm":nshm,"faults":pat,
           "send":send_res,"followup_ok":followup,"recv":recv_json,"prefail_failed":prefail_res})
}
