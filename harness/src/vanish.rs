//! `vanish` driver (C09): sends to receivers that are gone, going, or merely in transit.
use crate::conc::{tagged, untag};
use crate::util::*;
use ipc_channel::platform::{self, OsIpcChannel};
use serde_json::json;
use std::io::BufRead;

fn res_str(r: Result<(), std::io::Error>) -> String {
    match r {
        Ok(()) => "Ok".into(),
        Err(e) => format!("Err({})", e.raw_os_error().unwrap_or(-1)),
    }
}

pub fn run() {
    let stdin = std::io::stdin();
    for line in stdin.lock().lines() {
        let line = line.unwrap();
        if line.trim().is_empty() {
            continue;
        }
        let a = kv(&line);
        let id: u64 = a["id"].parse().unwrap();
        let len: usize = a["len"].parse().unwrap();
        let natt: usize = a.get("natt").map(|s| s.parse().unwrap()).unwrap_or(0);
        let scen = a["scen"].clone();
        let fds_before = open_fds().len();
        let out = match scen.as_str() {
            // receiver dropped before the send; the send runs in a forked child with SIGPIPE at its default disposition
            "before" => {
                let (tx, rx) = platform::channel().unwrap();
                drop(rx);
                let pid = unsafe { libc::fork() };
                if pid == 0 {
                    unsafe { libc::signal(libc::SIGPIPE, libc::SIG_DFL) };
                    let mut atts = Vec::new();
                    for _ in 0..natt {
                        let (s, _r) = platform::channel().unwrap();
                        atts.push(OsIpcChannel::Sender(s));
                    }
                    mark(&format!("send {}", id));
                    let r = tx.send(&tagged(1, 0, len), atts, vec![]);
                    mark(&format!("endsend {}", id));
                    let code = match r {
                        Ok(()) => 10,
                        Err(_) => 11,
                    };
                    unsafe { libc::_exit(code) };
                }
                let (st, hung) = wait_child(pid, 10_000);
                let how = if hung {
                    "hang".to_string()
                } else if libc::WIFSIGNALED(st) {
                    format!("signal({})", libc::WTERMSIG(st))
                } else if libc::WEXITSTATUS(st) == 10 {
                    "Ok".to_string()
                } else if libc::WEXITSTATUS(st) == 11 {
                    "Err".to_string()
                } else {
                    format!("exit({})", libc::WEXITSTATUS(st))
                };
                json!({"send": how})
            },
            // receiver dropped while a large send is blocked on full socket buffers
            "during" => {
                let (tx, rx) = platform::channel().unwrap();
                let via_process = a.get("proc").map(|s| s == "1").unwrap_or(false);
                let mut holder = 0;
                let mut rx = Some(rx);
                if via_process {
                    // a child holds the only receiver and exits after a while without ever reading
                    let pid = unsafe { libc::fork() };
                    if pid == 0 {
                        std::thread::sleep(std::time::Duration::from_millis(150));
                        unsafe { libc::_exit(0) };
                    }
                    holder = pid;
                    drop(rx.take());
                }
                let data = tagged(1, 0, len);
                let h = with_watchdog_start(move || res_str(tx.send(&data, vec![], vec![]).map_err(std::io::Error::from)));
                if !via_process {
                    std::thread::sleep(std::time::Duration::from_millis(100));
                    drop(rx.take());
                }
                let r = h.recv_timeout(std::time::Duration::from_secs(8)).ok();
                if holder != 0 {
                    let mut st = 0;
                    unsafe { libc::waitpid(holder, &mut st, 0) };
                }
                json!({"send": r.unwrap_or_else(|| "hang".into())})
            },
            // a receiver that is actively reading a multi-fragment message is killed in the middle of the transfer, again and again
            // at different moments; the sender (a process with SIGPIPE at its default disposition) must end with a result - never
            // with a signal, never blocked for ever
            "drainkill" => {
                let rounds: u32 = a.get("rounds").map(|s| s.parse().unwrap()).unwrap_or(30);
                let (mut oks, mut errs, mut signals, mut hangs) = (0, 0, Vec::new(), 0);
                let data = tagged(1, 0, len); // built once: the sender must be in the middle of its transfer when the receiver dies
                for round in 0..rounds {
                    let (tx, rx) = platform::channel().unwrap();
                    let rpid = unsafe { libc::fork() };
                    if rpid == 0 {
                        drop(tx);
                        loop {
                            if rx.recv().is_err() {
                                unsafe { libc::_exit(0) };
                            }
                        }
                    }
                    let spid = unsafe { libc::fork() };
                    if spid == 0 {
                        drop(rx);
                        unsafe { libc::signal(libc::SIGPIPE, libc::SIG_DFL) };
                        let code = match tx.send(&data, vec![], vec![]) {
                            Ok(()) => 10,
                            Err(_) => 11,
                        };
                        unsafe { libc::_exit(code) };
                    }
                    drop(tx);
                    drop(rx);
                    std::thread::sleep(std::time::Duration::from_micros(300 + (round as u64 * 173) % 6000));
                    unsafe { libc::kill(rpid, libc::SIGKILL) };
                    let mut st0 = 0;
                    unsafe { libc::waitpid(rpid, &mut st0, 0) };
                    let (st, hung) = wait_child(spid, 10_000);
                    if hung {
                        hangs += 1;
                    } else if libc::WIFSIGNALED(st) {
                        signals.push(libc::WTERMSIG(st));
                    } else if libc::WEXITSTATUS(st) == 10 {
                        oks += 1;
                    } else {
                        errs += 1;
                    }
                }
                json!({"rounds": rounds, "ok": oks, "err": errs, "signals": signals, "hangs": hangs})
            },
            // the receiving end arrived inside a message (taken out with a non-blocking receive); a child is exec'd while it is alive
            // and outlives it; once the program drops it, it must no longer exist anywhere: sends fail
            "execchild" => {
                let (tx1, rx1) = platform::channel().unwrap();
                let (tx2, rx2) = platform::channel().unwrap();
                let carrier = res_str(tx1.send(b"carrier", vec![OsIpcChannel::Receiver(rx2)], vec![]).map_err(std::io::Error::from));
                let how = a.get("proc").map(|s| s.as_str() == "1").unwrap_or(false);
                let got = if how { rx1.try_recv_timeout(std::time::Duration::from_millis(500)) } else { rx1.try_recv() };
                let mut out = json!({"carrier": carrier, "unpacked": false});
                if let Ok((_, mut ch, _)) = got {
                    let r2 = ch[0].to_receiver();
                    let mut child = std::process::Command::new("/bin/sleep").arg("5").spawn().unwrap();
                    std::thread::sleep(std::time::Duration::from_millis(30));
                    drop(r2);
                    let data = tagged(2, 1, len);
                    let r = with_watchdog(4_000, move || res_str(tx2.send(&data, vec![], vec![]).map_err(std::io::Error::from)));
                    let _ = child.kill();
                    let _ = child.wait();
                    out = json!({"carrier": carrier, "unpacked": true, "send": r.unwrap_or_else(|| "hang".into())});
                }
                drop(tx1);
                out
            },
            // receiver rx2 travels inside an undelivered message on channel 1; sends to it must succeed
            "transit" => {
                let (tx1, rx1) = platform::channel().unwrap();
                let (tx2, rx2) = platform::channel().unwrap();
                let s0 = res_str(tx2.send(&tagged(2, 0, 40), vec![], vec![]).map_err(std::io::Error::from));
                let carrier = res_str(tx1.send(b"carrier", vec![OsIpcChannel::Receiver(rx2)], vec![]).map_err(std::io::Error::from));
                let s1 = res_str(tx2.send(&tagged(2, 1, len), vec![], vec![]).map_err(std::io::Error::from));
                let s2 = res_str(tx2.send(&tagged(2, 2, 50), vec![], vec![]).map_err(std::io::Error::from));
                let mut got = Vec::new();
                let mut unpack_ok = false;
                if let Ok((d, mut ch, _)) = rx1.recv() {
                    unpack_ok = d == b"carrier" && ch.len() == 1;
                    if unpack_ok {
                        let r = ch[0].to_receiver();
                        while let Ok((d, _, _)) = r.try_recv() {
                            got.push(untag(&d));
                        }
                    }
                }
                json!({"sends":[s0, carrier, s1, s2], "unpacked": unpack_ok, "got": got})
            },
            // the queue carrying rx2 is dropped: rx2 no longer exists anywhere
            "carrier" => {
                let (tx1, rx1) = platform::channel().unwrap();
                let (tx2, rx2) = platform::channel().unwrap();
                let carrier = res_str(tx1.send(b"carrier", vec![OsIpcChannel::Receiver(rx2)], vec![]).map_err(std::io::Error::from));
                let s_before = res_str(tx2.send(&tagged(2, 0, 40), vec![], vec![]).map_err(std::io::Error::from));
                drop(rx1);
                let data = tagged(2, 1, len);
                let r = with_watchdog(8_000, move || res_str(tx2.send(&data, vec![], vec![]).map_err(std::io::Error::from)));
                drop(tx1);
                json!({"carrier": carrier, "before": s_before, "send": r.unwrap_or_else(|| "hang".into())})
            },
            // the raw-bytes channel with an EMPTY payload: to a vanished receiver it fails like any other send; to a receiver in transit it
            // succeeds and the empty message is there after unpacking
            "bytes_empty" => {
                use ipc_channel::ipc;
                let (btx, brx) = ipc::bytes_channel().unwrap();
                drop(brx);
                let gone = match btx.send(&[]) { Ok(()) => "Ok".to_string(), Err(_) => "Err".to_string() };
                let (ctx, crx) = ipc::channel::<ipc::IpcBytesReceiver>().unwrap();
                let (btx2, brx2) = ipc::bytes_channel().unwrap();
                ctx.send(brx2).unwrap();
                let transit = match btx2.send(&[]) { Ok(()) => "Ok".to_string(), Err(_) => "Err".to_string() };
                let _ = btx2.send(&[7, 7]);
                let got: Vec<usize> = match crx.recv() {
                    Ok(r) => {
                        let mut v = Vec::new();
                        while let Ok(d) = r.try_recv() {
                            v.push(d.len());
                        }
                        v
                    },
                    Err(_) => vec![99],
                };
                json!({"send": gone, "transit": transit, "got": got})
            },
            // channel A's receiver is gone; a message carrying channel B's RECEIVER is sent on A and refused: B's receiving end went
            // down with the message, so sends on B fail from then on (they must not succeed, and not block)
            "carrier_fail" => {
                let (atx, arx) = platform::channel().unwrap();
                let (btx, brx) = platform::channel().unwrap();
                drop(arx);
                let carrier = res_str(atx.send(&tagged(4, 0, len), vec![OsIpcChannel::Receiver(brx)], vec![]).map_err(std::io::Error::from));
                let b2 = btx.clone();
                let small = with_watchdog(8_000, move || res_str(b2.send(&tagged(4, 1, 40), vec![], vec![]).map_err(std::io::Error::from)));
                let big = with_watchdog(8_000, move || res_str(btx.send(&tagged(4, 2, 3 << 20), vec![], vec![]).map_err(std::io::Error::from)));
                json!({"carrier": carrier, "small": small.unwrap_or_else(|| "hang".into()), "big": big.unwrap_or_else(|| "hang".into())})
            },
            // the receiving end sits in a one-shot server that is dropped without ever accepting, after the client has connected
            "server_dropped" => {
                let (server, name) = platform::OsIpcOneShotServer::new().unwrap();
                let tx = platform::OsIpcSender::connect(name).unwrap();
                drop(server);
                let data = tagged(3, 0, len);
                let r = with_watchdog(8_000, move || res_str(tx.send(&data, vec![], vec![]).map_err(std::io::Error::from)));
                json!({"send": r.unwrap_or_else(|| "hang".into())})
            },
            _ => json!({"error": "scen"}),
        };
        let fds_after = open_fds().len();
        println!(
            "{}",
            json!({"kind":"vanish","id":id,"scen":scen,"len":len,"natt":natt,"out":out,"fds_before":fds_before,"fds_after":fds_after})
        );
    }
}

fn with_watchdog_start<T: Send + 'static, F: FnOnce() -> T + Send + 'static>(f: F) -> crossbeam_channel::Receiver<T> {
    let (tx, rx) = crossbeam_channel::bounded(1);
    std::thread::spawn(move || {
        let r = f();
        let _ = tx.send(r);
    });
    rx
}

/// wait for a child with a deadline; kills it when the deadline passes. returns (status, hung)
fn wait_child(pid: libc::pid_t, ms: u64) -> (i32, bool) {
    let t0 = std::time::Instant::now();
    loop {
        let mut st = 0;
        let r = unsafe { libc::waitpid(pid, &mut st, libc::WNOHANG) };
        if r == pid {
            return (st, false);
        }
        if t0.elapsed().as_millis() as u64 > ms {
            unsafe { libc::kill(pid, libc::SIGKILL) };
            unsafe { libc::waitpid(pid, &mut st, 0) };
            return (st, true);
        }
        std::thread::sleep(std::time::Duration::from_millis(2));
    }
}
