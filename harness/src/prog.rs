//! `prog` driver: single-threaded programs over the public typed-channel API (C03 C04 C11 C19).
//! Handles are numbered exactly as the Coq models number them.
use crate::util::*;
use ipc_channel::ipc::{self, IpcError, IpcReceiver, IpcReceiverSet, IpcSelectionResult, IpcSender, IpcSharedMemory, TryRecvError};
use serde::{Deserialize, Serialize};
use serde_json::json;
use std::io::BufRead;
use std::time::Duration;

#[derive(Serialize, Deserialize)]
enum Att {
    Tx(IpcSender<Msg>),
    Rx(IpcReceiver<Msg>),
    Shm(IpcSharedMemory),
}
/// a field whose deserialisation fails when the flag is set (a value the receiving side rejects)
struct Poison(bool);
impl Serialize for Poison {
    fn serialize<S: serde::Serializer>(&self, s: S) -> Result<S::Ok, S::Error> {
        s.serialize_bool(self.0)
    }
}
impl<'de> Deserialize<'de> for Poison {
    fn deserialize<D: serde::Deserializer<'de>>(d: D) -> Result<Self, D::Error> {
        if bool::deserialize(d)? {
            Err(serde::de::Error::custom("rejected by the receiving side"))
        } else {
            Ok(Poison(false))
        }
    }
}
#[derive(Serialize, Deserialize)]
struct Msg {
    data: u64,
    pad: Vec<u8>,
    early: Poison,
    atts: Vec<Att>,
    late: Poison,
}

enum Obj {
    Tx(IpcSender<Msg>),
    Rx(IpcReceiver<Msg>),
    Shm(IpcSharedMemory, u64),
    Set(IpcReceiverSet, Vec<(u64, usize)>),
    Gone,
}

fn install(objs: &mut Vec<Obj>, m: Msg) -> String {
    let mut out = Vec::new();
    for a in m.atts {
        let n = objs.len();
        match a {
            Att::Tx(s) => {
                objs.push(Obj::Tx(s));
                out.push(format!("(KTx, {})", n));
            },
            Att::Rx(r) => {
                objs.push(Obj::Rx(r));
                out.push(format!("(KRx, {})", n));
            },
            Att::Shm(g) => {
                let sum = checksum(&g[..]);
                objs.push(Obj::Shm(g, sum));
                out.push(format!("(KShm, {})", n));
            },
        }
    }
    format!("RMsg {} [{}]", m.data, out.join("; "))
}

pub fn run() {
    let stdin = std::io::stdin();
    let mut objs: Vec<Obj> = Vec::new();
    let mut prog_id = String::new();
    let mut idx = 0usize;
    let mut base_fds = 0usize;
    for line in stdin.lock().lines() {
        // a main thread stuck for good (a receive on the wrong socket, say) ends the process instead of outlasting the caller
        unsafe { libc::alarm(120) };
        let line = line.unwrap();
        let t: Vec<&str> = line.split_whitespace().collect();
        if t.is_empty() {
            continue;
        }
        if t[0] == "prog" {
            // new program: drop everything of the previous one
            objs.clear();
            prog_id = t[1].to_string();
            idx = 0;
            base_fds = open_fds().len();
            println!("{}", json!({"kind":"progstart","prog":prog_id,"fds":base_fds,"maps":shm_mappings()}));
            continue;
        }
        if t[0] == "end" {
            objs.clear();
            println!("{}", json!({"kind":"progend","prog":prog_id,"fds":open_fds().len(),"base_fds":base_fds,"maps":shm_mappings()}));
            continue;
        }
        mark(&format!("op {} {}", prog_id, idx));
        let h = |s: &str| -> usize { s.parse().unwrap() };
        let out: String = match t[0] {
            "new" => {
                let (tx, rx) = ipc::channel::<Msg>().unwrap();
                let n = objs.len();
                objs.push(Obj::Tx(tx));
                objs.push(Obj::Rx(rx));
                format!("RNew {} {}", n, n + 1)
            },
            "clone" => match objs.get(h(t[1])) {
                Some(Obj::Tx(s)) => {
                    let c = s.clone();
                    let n = objs.len();
                    objs.push(Obj::Tx(c));
                    format!("RCloned {}", n)
                },
                _ => "RBad".into(),
            },
            "drop" => {
                let i = h(t[1]);
                if i < objs.len() && !matches!(objs[i], Obj::Gone) {
                    objs[i] = Obj::Gone;
                    "RDropped".into()
                } else {
                    "RBad".into()
                }
            },
            "send" => {
                // send h data pad att,att,... [e|l]   att = t:<h> | r:<h> | m:<h>; e/l: decoding fails before / after the attachments
                let i = h(t[1]);
                let (early, late) = (t.get(5) == Some(&"e"), t.get(5) == Some(&"l"));
                let data: u64 = t[2].parse().unwrap();
                let pad: usize = t[3].parse().unwrap();
                let mut atts = Vec::new();
                let mut bad = false;
                if t.len() > 4 && t[4] != "-" {
                    for a in t[4].split(',') {
                        let (k, x) = a.split_once(':').unwrap();
                        let x = h(x);
                        match (k, objs.get(x)) {
                            ("t", Some(Obj::Tx(s))) => atts.push(Att::Tx(s.clone())),
                            ("m", Some(Obj::Shm(g, _))) => atts.push(Att::Shm(g.clone())),
                            ("r", Some(Obj::Rx(_))) => {
                                if let Obj::Rx(r) = std::mem::replace(&mut objs[x], Obj::Gone) {
                                    atts.push(Att::Rx(r));
                                }
                            },
                            _ => bad = true,
                        }
                    }
                }
                match (bad, objs.get(i)) {
                    (false, Some(Obj::Tx(s))) => match s.send(Msg { data, pad: payload(data, pad), early: Poison(early), atts, late: Poison(late) }) {
                        Ok(()) => "RSent".into(),
                        Err(_) => "RSendErr".into(),
                    },
                    _ => "RBad".into(),
                }
            },
            "recv" | "recvb" | "recvt" => {
                let i = h(t[1]);
                let r = match objs.get(i) {
                    Some(Obj::Rx(r)) => Some(match t[0] {
                        "recv" => r.try_recv(),
                        "recvt" => r.try_recv_timeout(Duration::from_millis(0)),
                        _ => r.recv().map_err(TryRecvError::IpcError),
                    }),
                    _ => None,
                };
                match r {
                    None => "RBad".into(),
                    Some(Ok(m)) => {
                        if m.pad != payload(m.data, m.pad.len()) {
                            "RCorrupt".into()
                        } else {
                            install(&mut objs, m)
                        }
                    },
                    Some(Err(TryRecvError::Empty)) => "REmpty".into(),
                    Some(Err(TryRecvError::IpcError(IpcError::Disconnected))) => "RDisconnected".into(),
                    Some(Err(TryRecvError::IpcError(IpcError::Bincode(_)))) => {
                        // the message was consumed but could not be decoded: nothing it carried reaches the program;
                        // keep the handle numbering of the models (which install and then drop what it carried)
                        let k: usize = t.get(2).map(|s| s.parse().unwrap()).unwrap_or(0);
                        for _ in 0..k {
                            objs.push(Obj::Gone);
                        }
                        "RDecodeErr".into()
                    },
                    Some(Err(e)) => format!("RErr({:?})", e),
                }
            },
            "shm" => {
                // shm <len> <seed>
                let len: usize = t[1].parse().unwrap();
                let seed: u64 = t[2].parse().unwrap();
                let bytes = payload(seed, len);
                let g = IpcSharedMemory::from_bytes(&bytes);
                let n = objs.len();
                objs.push(Obj::Shm(g, checksum(&bytes)));
                format!("RShm {}", n)
            },
            "shmclone" => match objs.get(h(t[1])) {
                Some(Obj::Shm(g, s)) => {
                    let (c, s) = (g.clone(), *s);
                    let n = objs.len();
                    objs.push(Obj::Shm(c, s));
                    format!("RShm {}", n)
                },
                _ => "RBad".into(),
            },
            "shmread" => match objs.get(h(t[1])) {
                Some(Obj::Shm(g, s)) => format!("RShmRead {} {}", g.len(), checksum(&g[..]) == *s),
                _ => "RBad".into(),
            },
            "setnew" => {
                let n = objs.len();
                objs.push(Obj::Set(IpcReceiverSet::new().unwrap(), Vec::new()));
                format!("RSet {}", n)
            },
            "setadd" => {
                let (si, ri) = (h(t[1]), h(t[2]));
                if si == ri || ri >= objs.len() || si >= objs.len() {
                    "RBad".into()
                } else if matches!(objs[ri], Obj::Rx(_)) && matches!(objs[si], Obj::Set(..)) {
                    let r = match std::mem::replace(&mut objs[ri], Obj::Gone) {
                        Obj::Rx(r) => r,
                        _ => unreachable!(),
                    };
                    if let Obj::Set(set, members) = &mut objs[si] {
                        let id = set.add(r).unwrap();
                        members.push((id, ri));
                        format!("RAdded {}", id)
                    } else {
                        unreachable!()
                    }
                } else {
                    "RBad".into()
                }
            },
            "select" => {
                // only issued when the model says at least one member is ready (select blocks otherwise)
                let si = h(t[1]);
                let evs = match objs.get_mut(si) {
                    Some(Obj::Set(set, _)) => Some(set.select()),
                    _ => None,
                };
                match evs {
                    None => "RBad".into(),
                    Some(Err(e)) => format!("RErr({:?})", e),
                    Some(Ok(evs)) => {
                        let mut parts = Vec::new();
                        for e in evs {
                            match e {
                                IpcSelectionResult::MessageReceived(id, m) => match m.to::<Msg>() {
                                    Ok(m) => parts.push(format!("(SMsg {} ({}))", id, install(&mut objs, m))),
                                    Err(_) => parts.push(format!("(SBadMsg {})", id)),
                                },
                                IpcSelectionResult::ChannelClosed(id) => parts.push(format!("(SClosed {})", id)),
                            }
                        }
                        format!("RSelect [{}]", parts.join("; "))
                    },
                }
            },
            other => format!("RUnknown({})", other),
        };
        mark(&format!("endop {} {}", prog_id, idx));
        println!("{}", json!({"kind":"op","prog":prog_id,"i":idx,"out":out,"fds":open_fds().len(),"maps":shm_mappings()}));
        idx += 1;
    }
}
