//! `conc` driver (C02): several senders (threads or forked processes) x several messages of mixed sizes,
//! one receiver (eager / delayed / polling / through a receiver set).  Payloads are tagged so that
//! exactly-once, wholeness and order can be judged from the receiver's log alone.
use crate::util::*;
use ipc_channel::platform::{self, OsIpcReceiverSet, OsIpcSelectionResult, OsIpcSender};
use serde_json::json;
use std::io::BufRead;

pub fn now_ns() -> u64 {
    let mut ts = libc::timespec { tv_sec: 0, tv_nsec: 0 };
    unsafe { libc::clock_gettime(libc::CLOCK_MONOTONIC, &mut ts) };
    ts.tv_sec as u64 * 1_000_000_000 + ts.tv_nsec as u64
}

pub fn tagged(sender: u64, seq: u64, len: usize) -> Vec<u8> {
    let len = std::cmp::max(len, 32);
    let mut v = Vec::with_capacity(len);
    v.extend_from_slice(&sender.to_le_bytes());
    v.extend_from_slice(&seq.to_le_bytes());
    v.extend_from_slice(&(len as u64).to_le_bytes());
    let body = payload(sender * 1_000_003 + seq, len - 32);
    v.extend_from_slice(&checksum(&body).to_le_bytes());
    v.extend_from_slice(&body);
    v
}

/// (sender, seq, announced len, intact)
pub fn untag(d: &[u8]) -> (u64, u64, u64, bool) {
    if d.len() < 32 {
        return (u64::MAX, u64::MAX, d.len() as u64, false);
    }
    let g = |i: usize| u64::from_le_bytes(d[i..i + 8].try_into().unwrap());
    let (s, q, l, c) = (g(0), g(8), g(16), g(24));
    let ok = l as usize == d.len() && checksum(&d[32..]) == c && d[32..] == payload(s * 1_000_003 + q, d.len() - 32)[..];
    (s, q, l, ok)
}

fn send_all(tx: &OsIpcSender, case: u64, sender: u64, lens: &[usize], pat: &str) -> Vec<(u64, u64, u64, u64, bool)> {
    let mut stamps = Vec::new();
    for (seq, &len) in lens.iter().enumerate() {
        let data = tagged(sender, seq as u64, len);
        let t0 = now_ns();
        mark(&format!("send {}.{}.{}", case, sender, seq));
        // transient refusals (ENOBUFS) of this sender's transmission attempts, the same pattern for each of its sends
        faults(pat);
        let r = tx.send(&data, vec![], vec![]);
        faults("");
        mark(&format!("endsend {}.{}.{}", case, sender, seq));
        let t1 = now_ns();
        stamps.push((sender, seq as u64, t0, t1, r.is_ok()));
    }
    stamps
}

pub fn run() {
    let stdin = std::io::stdin();
    let mut hangs = 0;
    for line in stdin.lock().lines() {
        let line = line.unwrap();
        if line.trim().is_empty() {
            continue;
        }
        if hangs >= 2 {
            // every hang costs a watchdog period (and leaves blocked threads behind): two are enough to report
            println!("{}", json!({"kind":"aborted","reason":"two hangs"}));
            break;
        }
        let a = kv(&line);
        let id: u64 = a["id"].parse().unwrap();
        let procs = a.get("procs").map(|s| s == "1").unwrap_or(false);
        let mode = a.get("mode").cloned().unwrap_or_else(|| "eager".into());
        let delay_us: i64 = a.get("delay_us").map(|s| s.parse().unwrap()).unwrap_or(0);
        // late=1: the receiver only starts once every sender has finished and dropped its handle
        let late = a.get("late").map(|s| s == "1").unwrap_or(false);
        let plans: Vec<Vec<usize>> = a["msgs"]
            .split(';')
            .map(|p| p.split(',').filter(|x| !x.is_empty()).map(|x| x.parse().unwrap()).collect())
            .collect();
        let total: usize = plans.iter().map(|p| p.len()).sum();
        let (tx, rx) = platform::channel().unwrap();
        // warm=<len>: the handle all senders are cloned from has already carried a message of that length (whatever a sender keeps
        // from one send to the next is then shared by its later clones)
        if let Some(w) = a.get("warm").map(|s| s.parse::<usize>().unwrap()) {
            let t = tx.clone();
            let h = std::thread::spawn(move || {
                let _ = t.send(&tagged(999, 0, w), vec![], vec![]);
            });
            let _ = rx.recv();
            let _ = h.join();
        }
        delay_after_first(delay_us);
        // stamps come back over a second channel (works for threads and processes alike)
        let (stx, srx) = ipc_channel::ipc::channel::<Vec<(u64, u64, u64, u64, bool)>>().unwrap();
        let mut handles = Vec::new();
        let mut pids = Vec::new();
        for (i, lens) in plans.iter().enumerate() {
            let txc = tx.clone();
            let lens = lens.clone();
            let stxc = stx.clone();
            let pat = a.get("faults").cloned().unwrap_or_default();
            if procs {
                let pid = unsafe { libc::fork() };
                if pid == 0 {
                    let st = send_all(&txc, id, i as u64, &lens, &pat);
                    let _ = stxc.send(st);
                    unsafe { libc::_exit(0) };
                }
                pids.push(pid);
            } else {
                handles.push(std::thread::spawn(move || {
                    let st = send_all(&txc, id, i as u64, &lens, &pat);
                    let _ = stxc.send(st);
                }));
            }
        }
        drop(tx);
        drop(stx);
        let mut pids = pids;
        let mut handles = handles;
        if late {
            for h in handles.drain(..) {
                let _ = h.join();
            }
            for pid in pids.drain(..) {
                let mut st = 0;
                unsafe { libc::waitpid(pid, &mut st, 0) };
            }
        }
        // receive
        let mut got: Vec<(u64, u64, u64, bool, u64)> = Vec::new();
        let mut closed = false;
        let mut errors: Vec<String> = Vec::new();
        let deadline = now_ns() + 30_000_000_000;
        match mode.as_str() {
            "set" => {
                let mut set = OsIpcReceiverSet::new().unwrap();
                let _ = set.add(rx).unwrap();
                // select blocks; run it on a watchdog'd helper
                let res = with_watchdog(12_000, move || {
                    let mut got = Vec::new();
                    let mut closed = false;
                    while !closed {
                        match set.select() {
                            Ok(evs) => {
                                for e in evs {
                                    match e {
                                        OsIpcSelectionResult::DataReceived(_, d, _, _) => {
                                            let (s, q, l, ok) = untag(&d);
                                            got.push((s, q, l, ok, now_ns()));
                                        },
                                        OsIpcSelectionResult::ChannelClosed(_) => closed = true,
                                    }
                                }
                            },
                            Err(_) => break,
                        }
                    }
                    (got, closed)
                });
                match res {
                    Some((g, c)) => {
                        got = g;
                        closed = c;
                    },
                    None => errors.push("hang".into()),
                }
            },
            _ => {
                if mode == "delayed" {
                    std::thread::sleep(std::time::Duration::from_millis(30));
                }
                let poll = mode == "poll";
                let timed = mode == "timeout";
                let res = with_watchdog(12_000, move || {
                    let mut got = Vec::new();
                    let mut closed = false;
                    let mut errors = Vec::new();
                    loop {
                        let r = if poll {
                            rx.try_recv()
                        } else if timed {
                            rx.try_recv_timeout(std::time::Duration::from_millis(20))
                        } else {
                            rx.recv()
                        };
                        match r {
                            Ok((d, _, _)) => {
                                let (s, q, l, ok) = untag(&d);
                                got.push((s, q, l, ok, now_ns()));
                            },
                            Err(e) => match classify_recv(e).as_str() {
                                "Empty" => {
                                    if now_ns() > deadline {
                                        errors.push("poll deadline".to_string());
                                        break;
                                    }
                                    std::thread::yield_now();
                                    continue;
                                },
                                "Disconnected" => {
                                    closed = true;
                                    break;
                                },
                                other => {
                                    errors.push(other.to_string());
                                    break;
                                },
                            },
                        }
                    }
                    (got, closed, errors)
                });
                match res {
                    Some((g, c, e)) => {
                        got = g;
                        closed = c;
                        errors = e;
                    },
                    None => errors.push("hang".into()),
                }
            },
        }
        let hang = errors.iter().any(|e| e == "hang");
        if hang {
            hangs += 1;
        }
        if !hang {
            for h in handles {
                let _ = h.join();
            }
        }
        for pid in pids {
            let mut st = 0;
            unsafe { libc::waitpid(pid, &mut st, 0) };
        }
        delay_after_first(0);
        let mut stamps = Vec::new();
        while let Ok(v) = srx.try_recv() {
            stamps.extend(v);
        }
        println!(
            "{}",
            json!({"kind":"conc","id":id,"mode":mode,"procs":procs,"expected":total,"closed":closed,"errors":errors,
                   "got": got, "stamps": stamps, "plans": plans})
        );
    }
}
