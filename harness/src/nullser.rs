//! A serde Serializer that discards everything.  Serialising an ipc endpoint into it still registers
//! the endpoint in the crate's per-thread attachment list (that is how `Raw` attaches endpoints to a
//! message whose bytes are chosen freely).
use serde::ser::{self, Serialize};
use std::fmt;

#[derive(Debug)]
pub struct NullError;
impl fmt::Display for NullError {
    fn fmt(&self, f: &mut fmt::Formatter) -> fmt::Result {
        write!(f, "null")
    }
}
impl std::error::Error for NullError {}
impl ser::Error for NullError {
    fn custom<T: fmt::Display>(_: T) -> Self {
        NullError
    }
}

pub struct Null;
macro_rules! prim {
    ($($f:ident $t:ty),*) => { $(fn $f(self, _: $t) -> Result<(), NullError> { Ok(()) })* };
}
impl ser::Serializer for Null {
    type Ok = ();
    type Error = NullError;
    type SerializeSeq = Null;
    type SerializeTuple = Null;
    type SerializeTupleStruct = Null;
    type SerializeTupleVariant = Null;
    type SerializeMap = Null;
    type SerializeStruct = Null;
    type SerializeStructVariant = Null;
    prim!(serialize_bool bool, serialize_i8 i8, serialize_i16 i16, serialize_i32 i32, serialize_i64 i64,
          serialize_u8 u8, serialize_u16 u16, serialize_u32 u32, serialize_u64 u64, serialize_f32 f32,
          serialize_f64 f64, serialize_char char, serialize_str &str, serialize_bytes &[u8]);
    fn serialize_none(self) -> Result<(), NullError> {
        Ok(())
    }
    fn serialize_some<T: ?Sized + Serialize>(self, v: &T) -> Result<(), NullError> {
        v.serialize(Null)
    }
    fn serialize_unit(self) -> Result<(), NullError> {
        Ok(())
    }
    fn serialize_unit_struct(self, _: &'static str) -> Result<(), NullError> {
        Ok(())
    }
    fn serialize_unit_variant(self, _: &'static str, _: u32, _: &'static str) -> Result<(), NullError> {
        Ok(())
    }
    fn serialize_newtype_struct<T: ?Sized + Serialize>(self, _: &'static str, v: &T) -> Result<(), NullError> {
        v.serialize(Null)
    }
    fn serialize_newtype_variant<T: ?Sized + Serialize>(self, _: &'static str, _: u32, _: &'static str, v: &T) -> Result<(), NullError> {
        v.serialize(Null)
    }
    fn serialize_seq(self, _: Option<usize>) -> Result<Null, NullError> {
        Ok(Null)
    }
    fn serialize_tuple(self, _: usize) -> Result<Null, NullError> {
        Ok(Null)
    }
    fn serialize_tuple_struct(self, _: &'static str, _: usize) -> Result<Null, NullError> {
        Ok(Null)
    }
    fn serialize_tuple_variant(self, _: &'static str, _: u32, _: &'static str, _: usize) -> Result<Null, NullError> {
        Ok(Null)
    }
    fn serialize_map(self, _: Option<usize>) -> Result<Null, NullError> {
        Ok(Null)
    }
    fn serialize_struct(self, _: &'static str, _: usize) -> Result<Null, NullError> {
        Ok(Null)
    }
    fn serialize_struct_variant(self, _: &'static str, _: u32, _: &'static str, _: usize) -> Result<Null, NullError> {
        Ok(Null)
    }
}
impl ser::SerializeSeq for Null {
    type Ok = ();
    type Error = NullError;
    fn serialize_element<T: ?Sized + Serialize>(&mut self, v: &T) -> Result<(), NullError> {
        v.serialize(Null)
    }
    fn end(self) -> Result<(), NullError> {
        Ok(())
    }
}
impl ser::SerializeTuple for Null {
    type Ok = ();
    type Error = NullError;
    fn serialize_element<T: ?Sized + Serialize>(&mut self, v: &T) -> Result<(), NullError> {
        v.serialize(Null)
    }
    fn end(self) -> Result<(), NullError> {
        Ok(())
    }
}
impl ser::SerializeTupleStruct for Null {
    type Ok = ();
    type Error = NullError;
    fn serialize_field<T: ?Sized + Serialize>(&mut self, v: &T) -> Result<(), NullError> {
        v.serialize(Null)
    }
    fn end(self) -> Result<(), NullError> {
        Ok(())
    }
}
impl ser::SerializeTupleVariant for Null {
    type Ok = ();
    type Error = NullError;
    fn serialize_field<T: ?Sized + Serialize>(&mut self, v: &T) -> Result<(), NullError> {
        v.serialize(Null)
    }
    fn end(self) -> Result<(), NullError> {
        Ok(())
    }
}
impl ser::SerializeMap for Null {
    type Ok = ();
    type Error = NullError;
    fn serialize_key<T: ?Sized + Serialize>(&mut self, v: &T) -> Result<(), NullError> {
        v.serialize(Null)
    }
    fn serialize_value<T: ?Sized + Serialize>(&mut self, v: &T) -> Result<(), NullError> {
        v.serialize(Null)
    }
    fn end(self) -> Result<(), NullError> {
        Ok(())
    }
}
impl ser::SerializeStruct for Null {
    type Ok = ();
    type Error = NullError;
    fn serialize_field<T: ?Sized + Serialize>(&mut self, _: &'static str, v: &T) -> Result<(), NullError> {
        v.serialize(Null)
    }
    fn end(self) -> Result<(), NullError> {
        Ok(())
    }
}
impl ser::SerializeStructVariant for Null {
    type Ok = ();
    type Error = NullError;
    fn serialize_field<T: ?Sized + Serialize>(&mut self, _: &'static str, v: &T) -> Result<(), NullError> {
        v.serialize(Null)
    }
    fn end(self) -> Result<(), NullError> {
        Ok(())
    }
}
