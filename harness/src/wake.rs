//! `wake` driver (C03): the final drop of a sender races with a blocked, timed or polling receive; the last
//! sender reference may be a clone in another thread or forked process, or sit inside an undelivered message
//! whose carrying receiver is dropped.
use crate::util::*;
use ipc_channel::ipc::{self, IpcError, IpcSender, TryRecvError};
use serde_json::json;
use std::io::BufRead;
use std::time::{Duration, Instant};

pub fn run() {
    let stdin = std::io::stdin();
    for line in stdin.lock().lines() {
        let line = line.unwrap();
        if line.trim().is_empty() {
            continue;
        }
        let a = kv(&line);
        let id: u64 = a["id"].parse().unwrap();
        let how = a["how"].clone(); // thread | fork | carrier
        let mode = a["mode"].clone(); // recv | timed | poll
        let delay_us: u64 = a["delay_us"].parse().unwrap();
        let nmsg: u32 = a.get("nmsg").map(|s| s.parse().unwrap()).unwrap_or(0);
        let clones: usize = a.get("clones").map(|s| s.parse().unwrap()).unwrap_or(1);
        let (tx, rx) = ipc::channel::<u32>().unwrap();
        let mut polled_empty = true;
        if how == "polled" {
            // the receiver is polled (nothing there yet) by its first owner before it travels on
            polled_empty = matches!(rx.try_recv(), Err(TryRecvError::Empty));
        }
        for q in 0..nmsg {
            tx.send(q).unwrap();
        }
        let (mut tx, mut rx) = (tx, rx);
        let mut spawned: Option<std::process::Child> = None;
        if how == "polled" {
            // ... then it is moved through a message (one hop); later traffic must reach the new owner, whatever receive it uses
            let (ctx, crx) = ipc::channel::<ipc::IpcReceiver<u32>>().unwrap();
            ctx.send(rx).unwrap();
            rx = crx.recv().unwrap();
        }
        if how == "spawn" {
            // the sender in use came out of a message; an unrelated child process is started while it is alive and outlives it
            let (ctx, crx) = ipc::channel::<IpcSender<u32>>().unwrap();
            ctx.send(tx).unwrap();
            tx = crx.recv().unwrap();
            spawned = std::process::Command::new("/bin/sleep").arg("4").spawn().ok();
        }
        let mut extra: Vec<IpcSender<u32>> = (1..clones).map(|_| tx.clone()).collect();
        let t0 = Instant::now();
        let mut child = 0;
        let mut carrier_keep = None;
        let dropper: Option<std::thread::JoinHandle<()>> = match how.as_str() {
            "polled" => Some(std::thread::spawn(move || {
                drop(extra);
                // messages sent only after the transfer, with the new owner already waiting; then the last sender goes
                for k in 0..clones as u32 {
                    std::thread::sleep(Duration::from_micros(delay_us / 2 + 1));
                    let _ = tx.send(nmsg + k);
                }
                std::thread::sleep(Duration::from_micros(delay_us));
                drop(tx);
            })),
            "thread" | "spawn" => Some(std::thread::spawn(move || {
                // the clones go first, one by one, the original last
                for c in extra.drain(..) {
                    std::thread::sleep(Duration::from_micros(delay_us / 4 + 1));
                    drop(c);
                }
                std::thread::sleep(Duration::from_micros(delay_us));
                drop(tx);
            })),
            "fork" => {
                let pid = unsafe { libc::fork() };
                if pid == 0 {
                    // the child holds the (inherited) senders for a while, then exits
                    std::thread::sleep(Duration::from_micros(delay_us));
                    unsafe { libc::_exit(0) };
                }
                child = pid;
                drop(extra);
                drop(tx); // the parent's copies go at once; the child's keep the channel connected until it exits
                None
            },
            _ => {
                // the only remaining sender travels inside an undelivered message; then its carrier is dropped
                let (ctx, crx) = ipc::channel::<IpcSender<u32>>().unwrap();
                ctx.send(tx).unwrap();
                drop(extra);
                carrier_keep = Some(ctx);
                Some(std::thread::spawn(move || {
                    std::thread::sleep(Duration::from_micros(delay_us));
                    drop(crx);
                }))
            },
        };
        let res = with_watchdog(8_000, move || {
            let mut got = Vec::new();
            let mut polls = 0u64;
            let out = loop {
                let r = match mode.as_str() {
                    "recv" => rx.recv().map_err(TryRecvError::IpcError),
                    "timed" => rx.try_recv_timeout(Duration::from_millis(5)),
                    _ => rx.try_recv(),
                };
                match r {
                    Ok(v) => got.push(v),
                    Err(TryRecvError::Empty) => {
                        polls += 1;
                        if polls > 50_000_000 {
                            break "Spin".to_string();
                        }
                        if mode == "poll" {
                            std::thread::yield_now();
                        }
                    },
                    Err(TryRecvError::IpcError(IpcError::Disconnected)) => break "Disconnected".to_string(),
                    Err(e) => break format!("{:?}", e),
                }
            };
            (out, got, t0.elapsed().as_micros() as u64)
        });
        if let Some(h) = dropper {
            let _ = h.join();
        }
        if child != 0 {
            let mut st = 0;
            unsafe { libc::waitpid(child, &mut st, 0) };
        }
        drop(carrier_keep);
        if let Some(mut c) = spawned {
            let _ = c.kill();
            let _ = c.wait();
        }
        let (out, got, us) = res.unwrap_or(("Hang".to_string(), vec![], 0));
        println!("{}", json!({"kind":"wake","id":id,"out":out,"got":got,"us":us,"polled_empty":polled_empty}));
    }
}
