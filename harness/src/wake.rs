//! `wake` driver (C03): the final drop of a sender races with a blocked, timed or polling receive; the last
//! sender reference may be a clone in another thread or forked process, or sit inside an undelivered message
//! whose carrying receiver is dropped.
use crate::util::*;
use ipc_channel::ipc::{self, IpcError, IpcSender, TryRecvError};
use serde_json::json;
use std::io::BufRead;
use std::time::{Duration, Instant};

/// a receiver serialised THROUGH A SHARED REFERENCE: the sending side still holds the handle it was sent from
struct Keep(std::rc::Rc<ipc::IpcReceiver<u32>>);
impl serde::Serialize for Keep {
    fn serialize<S: serde::Serializer>(&self, s: S) -> Result<S::Ok, S::Error> {
        (*self.0).serialize(s)
    }
}
impl<'de> serde::Deserialize<'de> for Keep {
    fn deserialize<D: serde::Deserializer<'de>>(d: D) -> Result<Self, D::Error> {
        Ok(Keep(std::rc::Rc::new(<ipc::IpcReceiver<u32> as serde::Deserialize>::deserialize(d)?)))
    }
}

pub fn run() {
    let stdin = std::io::stdin();
    for line in stdin.lock().lines() {
        let line = line.unwrap();
        if line.trim().is_empty() {
            continue;
        }
        let a = kv(&line);
        let id: u64 = a["id"].parse().unwrap();
        let how = a["how"].clone(); // thread | fork | carrier
        let mode = a["mode"].clone(); // recv | timed | poll
        let delay_us: u64 = a["delay_us"].parse().unwrap();
        let nmsg: u32 = a.get("nmsg").map(|s| s.parse().unwrap()).unwrap_or(0);
        let clones: usize = a.get("clones").map(|s| s.parse().unwrap()).unwrap_or(1);
        let (tx, rx) = ipc::channel::<u32>().unwrap();
        let mut polled_empty = true;
        if how == "polled" {
            // the receiver is polled (nothing there yet) by its first owner before it travels on
            polled_empty = matches!(rx.try_recv(), Err(TryRecvError::Empty));
        }
        for q in 0..nmsg {
            tx.send(q).unwrap();
        }
        let (mut tx, mut rx) = (tx, rx);
        let mut spawned: Option<std::process::Child> = None;
        let mut first_got: Option<u32> = None;
        if how == "partial" {
            // the first owner takes ONE of the queued messages with a plain receive, then the receiver travels on: the new owner gets
            // every other message exactly once, in order (nothing the first owner did not return may be held back by its handle)
            first_got = rx.try_recv().ok();
            let (ctx, crx) = ipc::channel::<ipc::IpcReceiver<u32>>().unwrap();
            ctx.send(rx).unwrap();
            rx = crx.recv().unwrap();
        }
        if how == "polled" {
            // ... then it is moved through a message (one hop); later traffic must reach the new owner, whatever receive it uses
            let (ctx, crx) = ipc::channel::<ipc::IpcReceiver<u32>>().unwrap();
            ctx.send(rx).unwrap();
            rx = crx.recv().unwrap();
        }
        if how == "spawn" {
            // the sender in use came out of a message; an unrelated child process is started while it is alive and outlives it
            let (ctx, crx) = ipc::channel::<IpcSender<u32>>().unwrap();
            ctx.send(tx).unwrap();
            tx = crx.recv().unwrap();
            spawned = std::process::Command::new("/bin/sleep").arg("4").spawn().ok();
        }
        let mut stolen: Vec<u32> = Vec::new();
        let mut stale: Option<std::rc::Rc<ipc::IpcReceiver<u32>>> = None;
        if how == "kept" {
            // the receiver travels on while the sending side keeps the handle it was sent from: that handle is dead from then on
            // (an error or a panic, never a message) - the backlog and everything later belong to the new owner
            let (ctx, crx) = ipc::channel::<Keep>().unwrap();
            let old = std::rc::Rc::new(rx);
            ctx.send(Keep(old.clone())).unwrap();
            let poll_old = |old: &std::rc::Rc<ipc::IpcReceiver<u32>>, stolen: &mut Vec<u32>| {
                for _ in 0..(nmsg + 2) {
                    if let Ok(Ok(v)) = std::panic::catch_unwind(std::panic::AssertUnwindSafe(|| old.try_recv())) {
                        stolen.push(v);
                    }
                }
            };
            let hook = std::panic::take_hook();
            std::panic::set_hook(Box::new(|_| {}));
            poll_old(&old, &mut stolen);
            let Keep(newrc) = crx.recv().unwrap();
            poll_old(&old, &mut stolen);
            std::panic::set_hook(hook);
            rx = std::rc::Rc::try_unwrap(newrc).ok().expect("a freshly decoded handle is unique");
            stale = Some(old);
        }
        let mut extra: Vec<IpcSender<u32>> = (1..clones).map(|_| tx.clone()).collect();
        let t0 = Instant::now();
        let mut child = 0;
        let mut carrier_keep = None;
        let dropper: Option<std::thread::JoinHandle<()>> = match how.as_str() {
            "polled" | "kept" | "partial" => Some(std::thread::spawn(move || {
                drop(extra);
                // messages sent only after the transfer, with the new owner already waiting; then the last sender goes
                for k in 0..clones as u32 {
                    std::thread::sleep(Duration::from_micros(delay_us / 2 + 1));
                    let _ = tx.send(nmsg + k);
                }
                std::thread::sleep(Duration::from_micros(delay_us));
                drop(tx);
            })),
            "thread" | "spawn" => Some(std::thread::spawn(move || {
                // the clones go first, one by one, the original last
                for c in extra.drain(..) {
                    std::thread::sleep(Duration::from_micros(delay_us / 4 + 1));
                    drop(c);
                }
                std::thread::sleep(Duration::from_micros(delay_us));
                drop(tx);
            })),
            "fork" => {
                let pid = unsafe { libc::fork() };
                if pid == 0 {
                    // the child holds the (inherited) senders for a while, then exits
                    std::thread::sleep(Duration::from_micros(delay_us));
                    unsafe { libc::_exit(0) };
                }
                child = pid;
                drop(extra);
                drop(tx); // the parent's copies go at once; the child's keep the channel connected until it exits
                None
            },
            _ => {
                // the only remaining sender travels inside an undelivered message; then its carrier is dropped
                let (ctx, crx) = ipc::channel::<IpcSender<u32>>().unwrap();
                ctx.send(tx).unwrap();
                drop(extra);
                carrier_keep = Some(ctx);
                Some(std::thread::spawn(move || {
                    std::thread::sleep(Duration::from_micros(delay_us));
                    drop(crx);
                }))
            },
        };
        let res = with_watchdog(8_000, move || {
            let mut got = Vec::new();
            let mut polls = 0u64;
            let out = loop {
                let r = match mode.as_str() {
                    "recv" => rx.recv().map_err(TryRecvError::IpcError),
                    "timed" => rx.try_recv_timeout(Duration::from_millis(5)),
                    _ => rx.try_recv(),
                };
                match r {
                    Ok(v) => got.push(v),
                    Err(TryRecvError::Empty) => {
                        polls += 1;
                        if polls > 50_000_000 {
                            break "Spin".to_string();
                        }
                        if mode == "poll" {
                            std::thread::yield_now();
                        }
                    },
                    Err(TryRecvError::IpcError(IpcError::Disconnected)) => break "Disconnected".to_string(),
                    Err(e) => break format!("{:?}", e),
                }
            };
            (out, got, t0.elapsed().as_micros() as u64)
        });
        if let Some(h) = dropper {
            let _ = h.join();
        }
        if child != 0 {
            let mut st = 0;
            unsafe { libc::waitpid(child, &mut st, 0) };
        }
        drop(carrier_keep);
        if let Some(mut c) = spawned {
            let _ = c.kill();
            let _ = c.wait();
        }
        let (out, got, us) = res.unwrap_or(("Hang".to_string(), vec![], 0));
        if let Some(old) = stale.take() {
            // once more after all the traffic, then the stale handle goes (which must not disturb anybody either)
            let hook = std::panic::take_hook();
            std::panic::set_hook(Box::new(|_| {}));
            if let Ok(Ok(v)) = std::panic::catch_unwind(std::panic::AssertUnwindSafe(|| old.try_recv())) {
                stolen.push(v);
            }
            let _ = std::panic::catch_unwind(std::panic::AssertUnwindSafe(move || drop(old)));
            std::panic::set_hook(hook);
        }
        println!("{}", json!({"kind":"wake","id":id,"out":out,"got":got,"us":us,"polled_empty":polled_empty,"stolen":stolen,"first":first_got}));
    }
}
