//! `res` driver (C11): resource accounting around public-API scenarios, including failing operations,
//! and what an unrelated spawned child inherits.
use crate::util::*;
use ipc_channel::ipc::{self, IpcOneShotServer, IpcReceiverSet, IpcSender, IpcSharedMemory};
use serde_json::json;
use std::io::BufRead;

fn tmp_entries() -> usize {
    let d = std::env::temp_dir();
    std::fs::read_dir(d).map(|r| r.count()).unwrap_or(0)
}

/// descriptors (number -> target) a freshly spawned unrelated child sees, beyond stdio
fn child_fds() -> Vec<String> {
    let mut child = std::process::Command::new("/bin/sleep").arg("5").spawn().unwrap();
    std::thread::sleep(std::time::Duration::from_millis(40));
    let mut v = Vec::new();
    if let Ok(rd) = std::fs::read_dir(format!("/proc/{}/fd", child.id())) {
        for e in rd.flatten() {
            let n: i32 = e.file_name().to_string_lossy().parse().unwrap_or(-1);
            if n > 2 {
                let t = std::fs::read_link(e.path()).map(|p| p.to_string_lossy().to_string()).unwrap_or_default();
                // the shim's log descriptor (>= 1000) is close-on-exec too; report everything we find
                v.push(format!("{}:{}", n, t));
            }
        }
    }
    let _ = child.kill();
    let _ = child.wait();
    v
}

fn scenario(name: &str, n: usize) -> serde_json::Value {
    let mut notes: Vec<String> = Vec::new();
    match name {
        "connect_missing" => {
            for i in 0..n {
                let r = IpcSender::<u32>::connect(format!("/nonexistent/ipc-channel-verif-{}", i));
                if r.is_ok() {
                    notes.push("connect to a missing name succeeded".into());
                }
            }
        },
        "connect_long" => {
            // names that do not fit sun_path (108 bytes): the call fails one way or another and leaves nothing behind
            for i in 0..n {
                for len in [107usize, 108, 109, 150, 300, 600, 8192] {
                    let mut name = format!("/nonexistent/ipc-channel-verif-{}-", i);
                    while name.len() < len {
                        name.push('x');
                    }
                    if IpcSender::<u32>::connect(name).is_ok() {
                        notes.push("connect to a missing over-long name succeeded".into());
                    }
                }
            }
        },
        "server_noshow" => {
            // the only client connects and leaves without sending: accept fails, nothing stays behind
            for _ in 0..n {
                let (server, name) = IpcOneShotServer::<u32>::new().unwrap();
                let tx = IpcSender::<u32>::connect(name).unwrap();
                drop(tx);
                if server.accept().is_ok() {
                    notes.push("accept succeeded although nothing was sent".into());
                }
            }
        },
        "server_bad_first" => {
            // the first message is not a value of the server's type: accept fails, nothing stays behind
            for i in 0..n {
                let (server, name) = IpcOneShotServer::<(String, IpcSender<u32>)>::new().unwrap();
                let tx = IpcSender::<(u8, Option<IpcSender<u32>>)>::connect(name).unwrap();
                let (etx, _erx) = ipc::channel::<u32>().unwrap();
                tx.send((i as u8, Some(etx))).unwrap();
                if server.accept().is_ok() {
                    notes.push("accept decoded a message of another type".into());
                }
            }
        },
        "server_unused" => {
            for _ in 0..n {
                let (server, _name) = IpcOneShotServer::<u32>::new().unwrap();
                drop(server);
            }
        },
        "server_cycle" => {
            for i in 0..n {
                let (server, name) = IpcOneShotServer::<(u32, Option<IpcSender<u32>>)>::new().unwrap();
                let tx = IpcSender::connect(name).unwrap();
                let (etx, erx) = ipc::channel::<u32>().unwrap();
                tx.send((i as u32, Some(etx))).unwrap();
                tx.send((77, None)).unwrap();
                let (rx, first) = server.accept().unwrap();
                if first.0 != i as u32 {
                    notes.push("first message wrong".into());
                }
                first.1.unwrap().send(5).unwrap();
                if erx.recv().unwrap() != 5 {
                    notes.push("embedded sender broken".into());
                }
                if rx.recv().unwrap().0 != 77 {
                    notes.push("second message wrong".into());
                }
            }
        },
        "connect_after_accept" => {
            for _ in 0..n {
                let (server, name) = IpcOneShotServer::<u32>::new().unwrap();
                let tx = IpcSender::connect(name.clone()).unwrap();
                tx.send(1).unwrap();
                let (_rx, _v) = server.accept().unwrap();
                // the rendezvous is over: the name is gone, a second connect must fail and leave nothing behind
                if IpcSender::<u32>::connect(name).is_ok() {
                    notes.push("second connect to a used one-shot server succeeded".into());
                }
            }
        },
        "shm_cycle" => {
            for i in 0..n {
                let g = IpcSharedMemory::from_bytes(&payload(i as u64, 5000 + i));
                let c = g.clone();
                let (tx, rx) = ipc::channel::<(IpcSharedMemory, IpcSharedMemory)>().unwrap();
                tx.send((g.clone(), IpcSharedMemory::from_byte(3, 0))).unwrap();
                drop(g);
                let (a, b) = rx.recv().unwrap();
                if a[..] != c[..] || b.len() != 0 {
                    notes.push("region content wrong".into());
                }
            }
        },
        "set_cycle" => {
            for _ in 0..n {
                let mut set = IpcReceiverSet::new().unwrap();
                let mut txs = Vec::new();
                for j in 0..5u32 {
                    let (tx, rx) = ipc::channel::<u32>().unwrap();
                    set.add(rx).unwrap();
                    tx.send(j).unwrap();
                    txs.push(tx);
                }
                let _ = set.select().unwrap();
                txs.truncate(2);
                let _ = set.select().unwrap();
            }
        },
        "send_closed_big_att" => {
            // the same with a payload that needs several packets: the first fragment is refused, everything the message embedded is released
            for i in 0..n {
                let (tx, rx) = ipc::channel::<(Vec<u8>, Vec<IpcSender<u32>>, ipc::IpcReceiver<u32>, IpcSharedMemory)>().unwrap();
                drop(rx);
                let (a, _ar) = ipc::channel::<u32>().unwrap();
                let (b, br) = ipc::channel::<u32>().unwrap();
                let r = tx.send((payload(i as u64, 600_000), vec![a.clone(), a], br, IpcSharedMemory::from_bytes(b"xyz")));
                if r.is_ok() {
                    notes.push("send to a closed receiver succeeded".into());
                }
                // the embedded receiver was moved into the message and the message is gone: its channel must be closed now
                if b.send(1).is_ok() {
                    notes.push("the receiver embedded in a refused multi-packet message is still open".into());
                }
            }
        },
        "send_closed_att" => {
            for _ in 0..n {
                let (tx, rx) = ipc::channel::<(Vec<IpcSender<u32>>, ipc::IpcReceiver<u32>, IpcSharedMemory)>().unwrap();
                drop(rx);
                let (a, _ar) = ipc::channel::<u32>().unwrap();
                let (_b, br) = ipc::channel::<u32>().unwrap();
                let r = tx.send((vec![a.clone(), a], br, IpcSharedMemory::from_bytes(b"xyz")));
                if r.is_ok() {
                    notes.push("send to a closed receiver succeeded".into());
                }
            }
        },
        "too_many_att" => {
            // a value embedding more endpoints than one message carries: refused (or, on a transport without a limit, delivered whole) -
            // in no case may a failed exchange leave descriptors behind in either process
            for _ in 0..n.min(6) {
                let (tx, rx) = ipc::channel::<Vec<IpcSender<u32>>>().unwrap();
                let mut keep = Vec::new();
                let mut v = Vec::new();
                for _ in 0..65 {
                    let (s, r) = ipc::channel::<u32>().unwrap();
                    v.push(s);
                    keep.push(r);
                }
                let sent = tx.send(v).is_ok();
                if sent {
                    match rx.try_recv_timeout(std::time::Duration::from_secs(3)) {
                        Ok(got) if got.len() == 65 => {},
                        Ok(got) => notes.push(format!("a value with 65 endpoints was accepted and arrived with {}", got.len())),
                        Err(e) => notes.push(format!("a value with 65 endpoints was accepted by send, the receive failed: {:?}", e)),
                    }
                }
                drop(keep);
            }
        },
        "prefix_decode_fresh_thread" => {
            // on a FRESH thread (its per-thread decode state untouched): a message carrying two senders is decoded as a type that only
            // reads the first one (version skew; bincode accepts trailing bytes).  The second sender must be released with the message,
            // not parked anywhere for the life of the thread: its channel reports 'disconnected' while the thread is still alive
            use ipc_channel::ipc::{IpcError, TryRecvError};
            #[derive(serde::Serialize, serde::Deserialize)]
            struct OnlyFirst(IpcSender<u32>);
            for _ in 0..n.min(4) {
                let h = std::thread::spawn(|| {
                    let mut out: Vec<String> = Vec::new();
                    let (tx, rx) = ipc::channel::<(IpcSender<u32>, IpcSender<u32>)>().unwrap();
                    let (a, ar) = ipc::channel::<u32>().unwrap();
                    let (b, br) = ipc::channel::<u32>().unwrap();
                    tx.send((a, b)).unwrap();
                    let rx2 = rx.to_opaque().to::<OnlyFirst>();
                    match rx2.recv() {
                        Ok(OnlyFirst(first)) => {
                            if first.send(5).is_err() || !matches!(ar.try_recv(), Ok(5)) {
                                out.push("the first embedded sender did not arrive as the first".into());
                            }
                            drop(first);
                        },
                        Err(e) => out.push(format!("decoding a prefix of the value failed: {:?}", e)),
                    }
                    match br.try_recv() {
                        Err(TryRecvError::IpcError(IpcError::Disconnected)) => {},
                        other => out.push(format!(
                            "a sender that arrived with a message but was not read by the (shorter) type the message was decoded as is still alive after the message was dropped: its channel reports {:?}",
                            other.map(|_| "a message")
                        )),
                    }
                    out
                });
                if let Ok(v) = h.join() {
                    notes.extend(v);
                } else {
                    notes.push("the thread panicked".into());
                }
            }
        },
        "send_closed_probe" => {
            // a refused send (receiver gone) that embedded a sender, a receiver and a region, the DESTINATION sender staying alive: what the
            // value embedded is released with the failed send - the embedded sender's channel reports 'disconnected', sends to the
            // embedded receiver's channel fail
            use ipc_channel::ipc::{IpcError, TryRecvError};
            for _ in 0..n.min(5) {
                let (tx, rx) = ipc::channel::<(Vec<IpcSender<u32>>, ipc::IpcReceiver<u32>, IpcSharedMemory)>().unwrap();
                drop(rx);
                let (a, ar) = ipc::channel::<u32>().unwrap();
                let (b, br) = ipc::channel::<u32>().unwrap();
                let r = tx.send((vec![a.clone(), a], br, IpcSharedMemory::from_bytes(b"xyz")));
                if r.is_ok() {
                    notes.push("send to a closed receiver succeeded".into());
                }
                let _again = tx.send((vec![], ipc::channel::<u32>().unwrap().1, IpcSharedMemory::from_bytes(b"")));
                match ar.try_recv() {
                    Err(TryRecvError::IpcError(IpcError::Disconnected)) => {},
                    other => notes.push(format!(
                        "after a refused send that embedded the only senders of a channel (destination sender still alive), that channel reports {:?} instead of 'disconnected'",
                        other.map(|_| "a message")
                    )),
                }
                if b.send(1).is_ok() {
                    notes.push("after a refused send that embedded a channel's receiver (destination sender still alive), a send on that channel succeeded".into());
                }
                drop(tx);
            }
        },
        "ser_fail_att" => {
            // a send that fails while the value is being serialised, after endpoints and a region were already embedded;
            // then a decode that fails before / after the attachments of the received message were claimed
            struct Refuses;
            impl serde::Serialize for Refuses {
                fn serialize<S: serde::Serializer>(&self, _s: S) -> Result<S::Ok, S::Error> {
                    Err(serde::ser::Error::custom("refused"))
                }
            }
            impl<'de> serde::Deserialize<'de> for Refuses {
                fn deserialize<D: serde::Deserializer<'de>>(_d: D) -> Result<Self, D::Error> {
                    Ok(Refuses)
                }
            }
            for _ in 0..n {
                let (tx, _rx) = ipc::channel::<(IpcSender<u32>, ipc::IpcReceiver<u32>, IpcSharedMemory, Refuses)>().unwrap();
                let (a, ar) = ipc::channel::<u32>().unwrap();
                let (b, br) = ipc::channel::<u32>().unwrap();
                if tx.send((a, br, IpcSharedMemory::from_bytes(b"0123456789"), Refuses)).is_ok() {
                    notes.push("a send whose serialisation failed reported success".into());
                }
                // the value (with the only sender of one channel and the receiver of another) went down with the failed send
                match ar.try_recv() {
                    Err(ipc_channel::ipc::TryRecvError::IpcError(ipc_channel::ipc::IpcError::Disconnected)) => {},
                    other => {
                        if notes.len() < 3 {
                            notes.push(format!(
                                "a send failed while serialising, after embedding the only sender of a channel; every handle of the program is gone, yet that channel reports {:?} instead of 'disconnected'",
                                other.map(|_| "a message")
                            ))
                        }
                    },
                }
                if b.send(1).is_ok() && notes.len() < 3 {
                    notes.push("a send failed while serialising, after embedding a channel's receiver; a later send on that channel succeeded".into());
                }
                // decode failure: (bool, sender, receiver, region) receives a first byte that is not a bool
                let (tx2, rx2) = ipc::channel::<(u8, IpcSender<u32>, ipc::IpcReceiver<u32>, IpcSharedMemory)>().unwrap();
                let (c, _cr) = ipc::channel::<u32>().unwrap();
                let (_d, dr) = ipc::channel::<u32>().unwrap();
                tx2.send((7, c, dr, IpcSharedMemory::from_bytes(b"abc"))).unwrap();
                let rx2 = rx2.to_opaque().to::<(bool, IpcSender<u32>, ipc::IpcReceiver<u32>, IpcSharedMemory)>();
                if rx2.try_recv().is_ok() {
                    notes.push("7 decoded as a bool".into());
                }
            }
        },
        "undecoded_drop" => {
            for _ in 0..n {
                let (tx, rx) = ipc::channel::<(IpcSender<u32>, ipc::IpcReceiver<u32>)>().unwrap();
                let (a, _ar) = ipc::channel::<u32>().unwrap();
                let (_b, br) = ipc::channel::<u32>().unwrap();
                tx.send((a, br)).unwrap();
                let mut set = IpcReceiverSet::new().unwrap();
                set.add(rx).unwrap();
                let evs = set.select().unwrap();
                drop(evs); // opaque messages dropped without decoding
            }
        },
        "undecoded_low_fd" => {
            // a process whose standard input is closed (a daemon): the descriptor that arrives with a message gets the LOWEST free
            // number - 0.  The message is dropped without its endpoint ever being converted: the descriptor must be closed again
            #[cfg(not(feature = "inprocess"))]
            for k in 0..3 {
                let pid = unsafe { libc::fork() };
                if pid == 0 {
                    use ipc_channel::platform::{self, OsIpcChannel};
                    let (ptx, prx) = platform::channel().unwrap();
                    let (s, _r) = platform::channel().unwrap();
                    ptx.send(b"x", vec![OsIpcChannel::Sender(s)], vec![]).unwrap();
                    unsafe { libc::close(k) };
                    let (_d, ch, _m) = prx.recv().unwrap();
                    let arrived = unsafe { libc::fcntl(k, libc::F_GETFD) } >= 0;
                    drop(ch);
                    let still_open = unsafe { libc::fcntl(k, libc::F_GETFD) } >= 0;
                    unsafe { libc::_exit(if !arrived { 3 } else if still_open { 7 } else { 0 }) };
                }
                let mut st = 0;
                unsafe { libc::waitpid(pid, &mut st, 0) };
                let code = if libc::WIFEXITED(st) { libc::WEXITSTATUS(st) } else { -1 };
                if code == 7 {
                    notes.push(format!("a descriptor that arrived with a message as number {} (the lowest free one: standard stream {} was closed) was not closed when the message was dropped undecoded", k, k));
                } else if code != 0 {
                    notes.push(format!("low-descriptor scenario: child ended with {} (3 = the received descriptor did not get number {})", code, k));
                }
            }
        },
        "router_cycle" => {
            use ipc_channel::router::RouterProxy;
            for i in 0..n {
                let proxy = RouterProxy::new();
                let mut txs = Vec::new();
                let (done_tx, done_rx) = crossbeam_channel::unbounded::<u32>();
                for j in 0..3u32 {
                    let (tx, rx) = ipc::channel::<u32>().unwrap();
                    let d = done_tx.clone();
                    proxy.add_route(rx.to_opaque(), Box::new(move |m| drop(d.send(m.to::<u32>().unwrap_or(999)))));
                    tx.send(j).unwrap();
                    txs.push(tx);
                }
                let xr = {
                    let (tx, rx) = ipc::channel::<u32>().unwrap();
                    tx.send(7).unwrap();
                    txs.push(tx);
                    proxy.route_ipc_receiver_to_new_crossbeam_receiver(rx)
                };
                for _ in 0..3 {
                    if done_rx.recv_timeout(std::time::Duration::from_secs(3)).is_err() {
                        notes.push("routed message did not arrive".into());
                    }
                }
                if xr.recv_timeout(std::time::Duration::from_secs(3)) != Ok(7) {
                    notes.push("forwarded message did not arrive".into());
                }
                if i % 2 == 0 {
                    txs.clear();
                }
                proxy.shutdown();
                drop(proxy);
                drop(txs);
            }
            // the router threads exit right after acknowledging: give their receiver sets a moment to be dropped
            std::thread::sleep(std::time::Duration::from_millis(150));
        },
        "server_bad_tmpdir" => {
            // a temp dir whose socket path does not fit sun_path: new() must fail without leaking its socket
            let long = std::env::temp_dir().join("x".repeat(120));
            let _ = std::fs::create_dir_all(&long);
            let old = std::env::var("TMPDIR").ok();
            std::env::set_var("TMPDIR", &long);
            for _ in 0..n {
                if let Ok((s, name)) = IpcOneShotServer::<u32>::new() {
                    // if the platform accepted the truncated path the server must at least be usable or clean up
                    drop(s);
                    let _ = name;
                }
            }
            match old {
                Some(o) => std::env::set_var("TMPDIR", o),
                None => std::env::remove_var("TMPDIR"),
            }
            let _ = std::fs::remove_dir_all(&long);
        },
        _ => notes.push("unknown scenario".into()),
    }
    json!(notes)
}

pub fn run() {
    let stdin = std::io::stdin();
    for line in stdin.lock().lines() {
        let line = line.unwrap();
        let a = kv(&line);
        match a.get("op").map(|s| s.as_str()) {
            Some("scen") => {
                let name = a["name"].clone();
                let n: usize = a.get("n").map(|s| s.parse().unwrap()).unwrap_or(10);
                // warm-up run, so that lazily created process-wide state (router threads etc.) does not count
                let (fc, mc) = (fd_targets(), shm_mappings());
                let _ = scenario(&name, 1);
                let (f0, m0, t0) = (fd_targets(), shm_mappings(), tmp_entries());
                mark(&format!("scen {}", name));
                let notes = scenario(&name, n);
                mark(&format!("endscen {}", name));
                let (f1, m1, t1) = (fd_targets(), shm_mappings(), tmp_entries());
                println!(
                    "{}",
                    json!({"kind":"scen","name":name,"n":n,"fds_before":f0.len(),"fds_after":f1.len(),"maps_before":m0,"maps_after":m1,
                           "tmp_before":t0,"tmp_after":t1,"notes":notes,"fds_cold":fc.len(),"maps_cold":mc,
                           "warmup_fds": f0.iter().filter(|x| !fc.contains(x)).map(|x| format!("{}:{}", x.0, x.1)).collect::<Vec<_>>(),
                           "new_fds": f1.iter().filter(|x| !f0.contains(x)).map(|x| format!("{}:{}", x.0, x.1)).collect::<Vec<_>>()})
                );
            },
            Some("inherit") => {
                let base = child_fds();
                // live objects of every kind while the child is spawned
                let (tx, rx) = ipc::channel::<(IpcSender<u32>, IpcSharedMemory)>().unwrap();
                let (etx, _erx) = ipc::channel::<u32>().unwrap();
                let region = IpcSharedMemory::from_bytes(b"inherit me not");
                let cloned = region.clone();
                tx.send((etx, region.clone())).unwrap();
                let (_got_tx, _got_region) = rx.recv().unwrap();
                let (server, name) = IpcOneShotServer::<u32>::new().unwrap();
                let ctx = IpcSender::<u32>::connect(name).unwrap();
                ctx.send(1).unwrap();
                let (_arx, _v) = server.accept().unwrap();
                let mut set = IpcReceiverSet::new().unwrap();
                let (_stx, srx) = ipc::channel::<u32>().unwrap();
                set.add(srx).unwrap();
                // a server that has not accepted yet (its listening socket is open)
                let (_server2, _name2) = IpcOneShotServer::<u32>::new().unwrap();
                // endpoints received through the NON-blocking paths: try_recv, try_recv_timeout and a set's select
                let (ntx, nrx) = ipc::channel::<(IpcSender<u32>, ipc::IpcReceiver<u32>)>().unwrap();
                let mut keep_alive = Vec::new();
                for _ in 0..3 {
                    let (a, _ar) = ipc::channel::<u32>().unwrap();
                    let (_b, br) = ipc::channel::<u32>().unwrap();
                    ntx.send((a, br)).unwrap();
                    keep_alive.push((_ar, _b));
                }
                let _got1 = nrx.try_recv().unwrap();
                let _got2 = nrx.try_recv_timeout(std::time::Duration::from_millis(200)).unwrap();
                let mut set2 = IpcReceiverSet::new().unwrap();
                set2.add(nrx).unwrap();
                let _got3: Vec<(IpcSender<u32>, ipc::IpcReceiver<u32>)> = set2
                    .select()
                    .unwrap()
                    .into_iter()
                    .filter_map(|e| match e {
                        ipc::IpcSelectionResult::MessageReceived(_, m) => m.to().ok(),
                        _ => None,
                    })
                    .collect();
                let with_objects = child_fds();
                drop(cloned);
                println!("{}", json!({"kind":"inherit","base":base,"with_objects":with_objects,"own_fds":open_fds().len()}));
            },
            _ => {},
        }
    }
}
