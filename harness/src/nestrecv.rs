//! `nestrecv` driver (C14, receive side): a receive-and-decode issued from inside another value's Deserialize.
use crate::util::*;
use ipc_channel::ipc::{self, IpcError, IpcReceiver, IpcSender, IpcSharedMemory, TryRecvError};
use serde::{Deserialize, Deserializer, Serialize, Serializer};
use serde_json::json;
use std::cell::RefCell;
use std::io::BufRead;

#[derive(Serialize, Deserialize)]
struct Inner {
    a: IpcSender<u32>,
    r: IpcSharedMemory,
    b: Vec<IpcSender<u32>>,
}

thread_local! {
    static SIDE: RefCell<Option<IpcReceiver<Inner>>> = RefCell::new(None);
    static PROPAGATE: RefCell<bool> = RefCell::new(true);
}

struct Via(Option<Inner>);
impl Serialize for Via {
    fn serialize<S: Serializer>(&self, s: S) -> Result<S::Ok, S::Error> {
        s.serialize_u8(1)
    }
}
impl<'de> Deserialize<'de> for Via {
    fn deserialize<D: Deserializer<'de>>(d: D) -> Result<Self, D::Error> {
        let _marker: u8 = Deserialize::deserialize(d)?;
        // a receive (and decode) of another message from inside this value's deserialisation
        let r = SIDE.with(|s| s.borrow().as_ref().map(|rx| rx.try_recv()));
        match r {
            Some(Ok(inner)) => Ok(Via(Some(inner))),
            _ => {
                if PROPAGATE.with(|p| *p.borrow()) {
                    Err(serde::de::Error::custom("nested receive failed"))
                } else {
                    Ok(Via(None))
                }
            },
        }
    }
}

#[derive(Serialize, Deserialize)]
struct Outer {
    before: IpcSender<u32>,
    mid: Via,
    after: Vec<IpcSender<u32>>,
    region: IpcSharedMemory,
}

fn who(kept: &[IpcReceiver<u32>], s: &IpcSender<u32>) -> i64 {
    let _ = s.send(0xBEEF);
    for (i, r) in kept.iter().enumerate() {
        match r.try_recv() {
            Ok(_) => return i as i64,
            _ => {},
        }
    }
    -1
}

pub fn run() {
    let stdin = std::io::stdin();
    for line in stdin.lock().lines() {
        let line = line.unwrap();
        if line.trim().is_empty() {
            continue;
        }
        let a = kv(&line);
        let id: u64 = a["id"].parse().unwrap();
        let bad_kind: u32 = a.get("bad").map(|s| s.parse().unwrap()).unwrap_or(0);
        let bad_inner = bad_kind != 0;
        let propagate = a.get("prop").map(|s| s == "1").unwrap_or(true);
        let nafter: usize = a.get("nafter").map(|s| s.parse().unwrap()).unwrap_or(1);
        let ninner: usize = a.get("ninner").map(|s| s.parse().unwrap()).unwrap_or(1);
        let fds_before = open_fds().len();
        let out = {
            PROPAGATE.with(|p| *p.borrow_mut() = propagate);
            // endpoints: 0 = before, 1 = inner.a, 2.. = inner.b, then after[..]
            let total = 2 + ninner + nafter;
            let mut senders = Vec::new();
            let mut kept = Vec::new();
            for _ in 0..total {
                let (s, r) = ipc::channel::<u32>().unwrap();
                senders.push(s);
                kept.push(r);
            }
            let (stx, srx) = ipc::channel::<Inner>().unwrap();
            let (tx, rx) = ipc::channel::<Outer>().unwrap();
            let inner_region = payload(id + 1, 300);
            let outer_region = payload(id + 2, 500);
            if bad_kind == 2 {
                // a message WITHOUT attachments whose bytes read as an Inner that claims attachment 1, the empty region and no further
                // senders: it must be refused - attachment 1 of the ENCLOSING message is not its to take
                let _ = stx.clone().to_opaque().to::<(u64, u64, u64)>().send((1, u64::MAX, 0));
            } else if bad_inner {
                // something that does not decode as Inner sits in the side channel
                let _ = stx.clone().to_opaque().to::<u64>().send(12345);
            } else {
                stx.send(Inner { a: senders[1].clone(), r: IpcSharedMemory::from_bytes(&inner_region), b: senders[2..2 + ninner].to_vec() }).unwrap();
            }
            tx.send(Outer {
                before: senders[0].clone(),
                mid: Via(None),
                after: senders[2 + ninner..].to_vec(),
                region: IpcSharedMemory::from_bytes(&outer_region),
            })
            .unwrap();
            drop(senders);
            SIDE.with(|s| *s.borrow_mut() = Some(srx));
            let res = rx.try_recv();
            let mut ok = true;
            let mut detail = Vec::new();
            let outcome = match res {
                Ok(o) => {
                    let w = who(&kept, &o.before);
                    ok &= w == 0;
                    detail.push(json!(["before", w]));
                    match &o.mid.0 {
                        Some(inner) => {
                            let w = who(&kept, &inner.a);
                            ok &= w == 1;
                            detail.push(json!(["inner.a", w]));
                            for (j, s) in inner.b.iter().enumerate() {
                                let w = who(&kept, s);
                                ok &= w == 2 + j as i64;
                                detail.push(json!(["inner.b", j, w]));
                            }
                            detail.push(json!(["inner.r", if inner.r[..] == inner_region[..] { 100 } else { -1 }]));
                            ok &= inner.b.len() == ninner && inner.r[..] == inner_region[..];
                        },
                        None => ok &= bad_inner && !propagate,
                    }
                    for (j, s) in o.after.iter().enumerate() {
                        let w = who(&kept, s);
                        ok &= w == (2 + ninner + j) as i64;
                        detail.push(json!(["after", j, w]));
                    }
                    detail.push(json!(["region", if o.region[..] == outer_region[..] { 101 } else { -1 }]));
                    ok &= o.after.len() == nafter && o.region[..] == outer_region[..];
                    "Ok"
                },
                Err(TryRecvError::IpcError(IpcError::Bincode(_))) => {
                    ok &= bad_inner && propagate;
                    "Err"
                },
                Err(_) => {
                    ok = false;
                    "Other"
                },
            };
            SIDE.with(|s| *s.borrow_mut() = None);
            // the thread-local tables must be clean: a plain message afterwards decodes with ITS attachment
            let (ptx, prx) = ipc::channel::<IpcSender<u32>>().unwrap();
            let (ps, pr) = ipc::channel::<u32>().unwrap();
            ptx.send(ps).unwrap();
            let later = match prx.try_recv() {
                Ok(s) => s.send(5).is_ok() && matches!(pr.try_recv(), Ok(5)),
                Err(_) => false,
            };
            drop(tx);
            drop(stx);
            drop(rx);
            // every endpoint must be released once the values are gone
            let released: Vec<bool> = kept
                .iter()
                .map(|r| loop {
                    match r.try_recv() {
                        Ok(_) => continue,
                        Err(TryRecvError::IpcError(IpcError::Disconnected)) => break true,
                        _ => break false,
                    }
                })
                .collect();
            json!({"outcome": outcome, "ok": ok, "detail": detail, "later_ok": later, "released": released})
        };
        println!("{}", json!({"kind":"nestrecv","id":id,"result":out,"fds_before":fds_before,"fds_after":open_fds().len(),"maps":shm_mappings()}));
    }
}
