//! `shm` driver: shared-memory regions (C05) and zero/odd-length regions at every public level (C18).
use crate::util::*;
use ipc_channel::ipc::{self, IpcSharedMemory};
use ipc_channel::platform::{self, OsIpcSharedMemory};
use serde_json::json;
use std::io::BufRead;

fn emit(what: &str, ok: bool, extra: serde_json::Value) {
    println!("{}", json!({"kind":"shm","what":what,"ok":ok,"extra":extra}));
}

fn zero() {
    // platform level
    let r = OsIpcSharedMemory::from_bytes(&[]);
    emit("platform from_bytes(&[]) deref", r.len() == 0 && r[..] == [0u8; 0][..], json!(r.len()));
    let c = r.clone();
    emit("platform clone of empty region", c.len() == 0, json!(c.len()));
    let r2 = OsIpcSharedMemory::from_byte(7, 0);
    emit("platform from_byte(7,0) deref", r2.len() == 0, json!(r2.len()));
    emit("platform empty regions compare equal", r == r2, json!(null));
    let (tx, rx) = platform::channel().unwrap();
    tx.send(b"x", vec![], vec![r, r2]).unwrap();
    let (_d, _c, regs) = rx.recv().unwrap();
    emit("platform empty regions received", regs.len() == 2 && regs.iter().all(|g| g.len() == 0), json!(regs.len()));
    for (i, n) in [1usize, 3, 4095, 4096, 4097, 8193].iter().enumerate() {
        let data = payload(900 + i as u64, *n);
        let g = OsIpcSharedMemory::from_bytes(&data);
        let ok1 = g[..] == data[..];
        tx.send(b"y", vec![], vec![g.clone()]).unwrap();
        let (_d, _c, regs) = rx.recv().unwrap();
        emit(&format!("platform odd length {}", n), ok1 && regs.len() == 1 && regs[0][..] == data[..], json!(regs[0].len()));
    }
    // ipc level
    let e = IpcSharedMemory::from_bytes(&[]);
    emit("ipc from_bytes(&[])", e.len() == 0, json!(e.len()));
    let e2 = IpcSharedMemory::from_byte(9, 0);
    emit("ipc from_byte(9,0)", e2.len() == 0, json!(e2.len()));
    let (itx, irx) = ipc::channel::<(IpcSharedMemory, Vec<IpcSharedMemory>, IpcSharedMemory)>().unwrap();
    let mid = IpcSharedMemory::from_bytes(b"abc");
    itx.send((e.clone(), vec![e2.clone(), mid.clone(), e.clone()], mid.clone())).unwrap();
    let (a, v, b) = irx.recv().unwrap();
    emit(
        "ipc empty regions mixed with non-empty ones arrive in place",
        a.len() == 0 && v.len() == 3 && v[0].len() == 0 && v[1][..] == b"abc"[..] && v[2].len() == 0 && b[..] == b"abc"[..],
        json!([a.len(), v.len(), b.len()]),
    );
}

/// standard-trait entry points that ordinary code reaches without naming them (`clone_from` through `Vec::clone_from` /
/// `Option::clone_from`, comparisons): a handle's bytes never change because of what is done to ANOTHER handle
fn traits() {
    for (i, n) in [1usize, 64, 4096, 5000].iter().enumerate() {
        let a_data = payload(4000 + i as u64, *n);
        let b_data = payload(5000 + i as u64, *n);
        let a = IpcSharedMemory::from_bytes(&a_data);
        let a2 = a.clone();
        let (tx, rx) = ipc::channel::<IpcSharedMemory>().unwrap();
        tx.send(a.clone()).unwrap();
        let a3 = rx.recv().unwrap();
        let b = IpcSharedMemory::from_bytes(&b_data);
        let mut d = a.clone();
        d.clone_from(&b);
        let ok = d[..] == b_data[..] && a[..] == a_data[..] && a2[..] == a_data[..] && a3[..] == a_data[..] && b[..] == b_data[..];
        emit(&format!("ipc clone_from with a source of the same length {}: destination = source, every other handle unchanged", n), ok,
             json!([d[..] == b_data[..], a[..] == a_data[..], a2[..] == a_data[..], a3[..] == a_data[..]]));
        let mut v = vec![a.clone(), a2.clone()];
        let w = vec![b.clone(), b.clone()];
        v.clone_from(&w);
        let ok = v.iter().all(|x| x[..] == b_data[..]) && a[..] == a_data[..] && a3[..] == a_data[..];
        emit(&format!("ipc Vec::clone_from over regions of the same length {}", n), ok, json!([a[..] == a_data[..], a3[..] == a_data[..]]));
        let mut o = Some(a.clone());
        o.clone_from(&Some(b.clone()));
        let ok = o.as_ref().map(|x| x[..] == b_data[..]).unwrap_or(false) && a[..] == a_data[..] && a3[..] == a_data[..];
        emit(&format!("ipc Option::clone_from over regions of the same length {}", n), ok, json!([a[..] == a_data[..], a3[..] == a_data[..]]));
        emit(&format!("ipc equality is by contents, length {}", n), a == a2 && a == a3 && a != b && d == b, json!(null));
        // platform level
        let pa = OsIpcSharedMemory::from_bytes(&a_data);
        let pa2 = pa.clone();
        let pb = OsIpcSharedMemory::from_bytes(&b_data);
        let mut pd = pa.clone();
        pd.clone_from(&pb);
        let ok = pd[..] == b_data[..] && pa[..] == a_data[..] && pa2[..] == a_data[..] && pb[..] == b_data[..];
        emit(&format!("platform clone_from with a source of the same length {}", n), ok, json!([pd[..] == b_data[..], pa[..] == a_data[..], pa2[..] == a_data[..]]));
    }
}

/// op=script: a sequence of operations on platform-level regions held in numbered slots; after every operation the number of
/// region mappings and open descriptors of this process is recorded, reads report (length, the single byte value all bytes have
/// or -1).  Operations: b<len> from_byte(slot number + 1, len) into a new slot; k<i> clone of slot i into a new slot;
/// f<d>:<s> slot d .clone_from(slot s); d<i> drop slot i; r<i> read slot i; x<i> send slot i's region through a channel and put
/// the received copy into a new slot.
fn script(a: &std::collections::HashMap<String, String>) {
    let id: u64 = a["id"].parse().unwrap();
    let mut slots: Vec<Option<OsIpcSharedMemory>> = Vec::new();
    let mut steps: Vec<serde_json::Value> = Vec::new();
    let maps0 = shm_mappings() as i64;
    let fds0 = open_fds().len() as i64;
    let (tx, rx) = platform::channel().unwrap();
    let fds1 = open_fds().len() as i64 - fds0; // the channel's two descriptors
    for (n, op) in a["ops"].split(',').enumerate() {
        let (k, arg) = op.split_at(1);
        mark(&format!("sop {}.{}", id, n));
        let mut read: Option<(usize, i64)> = None;
        match k {
            "b" => {
                let len: usize = arg.parse().unwrap();
                let b = (slots.len() + 1) as u8;
                slots.push(Some(OsIpcSharedMemory::from_byte(b, len)));
            },
            "k" => {
                let i: usize = arg.parse().unwrap();
                let c = slots[i].as_ref().unwrap().clone();
                slots.push(Some(c));
            },
            "f" => {
                let (d, sidx) = arg.split_once(':').unwrap();
                let (d, sidx): (usize, usize) = (d.parse().unwrap(), sidx.parse().unwrap());
                let src = slots[sidx].take().unwrap(); // d != s: taken out only to have both at hand
                slots[d].as_mut().unwrap().clone_from(&src);
                slots[sidx] = Some(src);
            },
            "d" => {
                let i: usize = arg.parse().unwrap();
                slots[i] = None;
            },
            "x" => {
                let i: usize = arg.parse().unwrap();
                let c = slots[i].as_ref().unwrap().clone();
                tx.send(b"r", vec![], vec![c]).unwrap();
                let (_d, _c, mut regs) = rx.recv().unwrap();
                slots.push(Some(regs.remove(0)));
            },
            _ => {
                let i: usize = arg.parse().unwrap();
                let r = slots[i].as_ref().unwrap();
                let all = r.iter().next().map(|b0| if r.iter().all(|b| b == b0) { *b0 as i64 } else { -1 }).unwrap_or(-2);
                read = Some((r.len(), all));
            },
        }
        mark(&format!("endsop {}.{}", id, n));
        steps.push(json!({"op": op, "maps": shm_mappings() as i64 - maps0, "fds": open_fds().len() as i64 - fds0 - fds1,
                          "read": read.map(|(l, b)| vec![l as i64, b])}));
    }
    println!("{}", json!({"kind":"shmscript","id":id,"steps":steps}));
}

/// op=parked: a send that carries a region is parked (multi-fragment data, nobody reading yet); meanwhile the program creates ANOTHER
/// region of the same length; then the receiver reads.  Both regions - and the received copy - must read their own bytes afterwards.
/// Runs in a forked child: a mapping destroyed behind a handle's back ends in a fault.
fn parked(a: &std::collections::HashMap<String, String>) {
    let id: u64 = a["id"].parse().unwrap();
    let len: usize = a["len"].parse().unwrap();
    let pid = unsafe { libc::fork() };
    if pid == 0 {
        let (tx, rx) = platform::channel().unwrap();
        let r1 = OsIpcSharedMemory::from_byte(0x11, len);
        let keep1 = r1.clone();
        let t = std::thread::spawn(move || {
            let data = vec![0x33u8; 4 << 20];
            let _ = tx.send(&data, vec![], vec![r1]);
        });
        std::thread::sleep(std::time::Duration::from_millis(120));
        let r2 = OsIpcSharedMemory::from_byte(0x22, len);
        let got = rx.recv();
        let _ = t.join();
        let mut code = 0;
        match got {
            Ok((d, _c, regs)) => {
                if d.len() != 4 << 20 || regs.len() != 1 || regs[0].len() != len || !regs[0].iter().all(|b| *b == 0x11) {
                    code = 4;
                }
            },
            Err(_) => code = 5,
        }
        if !keep1.iter().all(|b| *b == 0x11) {
            code = 6;
        }
        if r2.len() != len || !r2.iter().all(|b| *b == 0x22) {
            code = 7;
        }
        unsafe { libc::_exit(code) };
    }
    let mut st = 0;
    unsafe { libc::waitpid(pid, &mut st, 0) };
    let (code, sig) = if libc::WIFEXITED(st) { (libc::WEXITSTATUS(st), 0) } else { (-1, libc::WTERMSIG(st)) };
    println!("{}", json!({"kind":"parked","id":id,"len":len,"code":code,"signal":sig}));
}

fn case(a: &std::collections::HashMap<String, String>) {
    let id: u64 = a["id"].parse().unwrap();
    let len: usize = a["len"].parse().unwrap();
    let nreg: usize = a.get("nreg").map(|s| s.parse().unwrap()).unwrap_or(1);
    let clones: usize = a.get("clones").map(|s| s.parse().unwrap()).unwrap_or(0);
    let fill = a.get("fill").map(|s| s == "1").unwrap_or(false);
    let fork = a.get("fork").map(|s| s == "1").unwrap_or(false);
    let pad: usize = a.get("pad").map(|s| s.parse().unwrap()).unwrap_or(0);
    let maps_before = shm_mappings();
    let fds_before = open_fds().len();
    let mut expect: Vec<Vec<u8>> = Vec::new();
    let mut regions: Vec<IpcSharedMemory> = Vec::new();
    let mut local_ok = true;
    for i in 0..nreg {
        // region i has its own length (len + i) and its own contents
        let n = len + i;
        let (r, e) = if fill {
            let b = (id as u8).wrapping_add(i as u8);
            (IpcSharedMemory::from_byte(b, n), vec![b; n])
        } else {
            let e = payload(id * 100 + i as u64, n);
            (IpcSharedMemory::from_bytes(&e), e)
        };
        local_ok &= r[..] == e[..];
        let mut r = r;
        for _ in 0..clones {
            let c = r.clone();
            local_ok &= c[..] == e[..];
            r = c; // the original is dropped: the clone must stand on its own
        }
        regions.push(r);
        expect.push(e);
    }
    let (tx, rx) = ipc::channel::<(Vec<u8>, Vec<IpcSharedMemory>)>().unwrap();
    let padding = payload(id + 5, pad);
    let mut child_ok = true;
    let received: Vec<IpcSharedMemory>;
    if fork {
        // the child creates nothing: it receives, checks, and reports through its exit status
        let (btx, brx) = ipc::channel::<Vec<bool>>().unwrap();
        let pid = unsafe { libc::fork() };
        if pid == 0 {
            let (_p, regs) = rx.recv().unwrap();
            let oks: Vec<bool> = regs.iter().zip(expect.iter()).map(|(r, e)| r[..] == e[..]).collect();
            let all = oks.len() == expect.len() && oks.iter().all(|b| *b);
            let _ = btx.send(oks);
            unsafe { libc::_exit(if all { 0 } else { 3 }) };
        }
        drop(rx);
        let s = tx.send((padding.clone(), regions.clone()));
        drop(regions); // sender-side copies gone
        drop(tx); // carrying channel gone
        local_ok &= s.is_ok();
        let mut st = 0;
        unsafe { libc::waitpid(pid, &mut st, 0) };
        child_ok = libc::WIFEXITED(st) && libc::WEXITSTATUS(st) == 0;
        let oks = brx.try_recv_timeout(std::time::Duration::from_secs(5)).unwrap_or_default();
        child_ok &= oks.len() == nreg;
        received = vec![];
    } else {
        let s = tx.send((padding.clone(), regions.clone()));
        local_ok &= s.is_ok();
        drop(regions);
        let got = rx.recv();
        drop(tx);
        drop(rx);
        match got {
            Ok((p, regs)) => {
                local_ok &= p == padding;
                received = regs;
            },
            Err(_) => {
                local_ok = false;
                received = vec![];
            },
        }
    }
    let mut order_ok = fork || received.len() == nreg;
    if !fork {
        for (r, e) in received.iter().zip(expect.iter()) {
            order_ok &= r[..] == e[..];
        }
    }
    let lens: Vec<usize> = received.iter().map(|r| r.len()).collect();
    drop(received);
    let maps_after = shm_mappings();
    let fds_after = open_fds().len();
    println!(
        "{}",
        json!({"kind":"shmcase","id":id,"len":len,"nreg":nreg,"clones":clones,"fill":fill,"fork":fork,"pad":pad,
               "local_ok":local_ok,"arrived_ok":order_ok && child_ok,"lens":lens,
               "maps_before":maps_before,"maps_after":maps_after,"fds_before":fds_before,"fds_after":fds_after})
    );
}

/// a mapping that fails (ENOMEM): the operation may panic or report an error, but it must not write through a null or
/// dangling pointer (signal), and it must not hand out a region whose length or contents differ from what was created / sent
fn mmapfail() {
    for (what, len) in [("from_bytes", 5000usize), ("from_byte", 5000), ("clone", 5000), ("receive", 5000), ("from_bytes", 40 << 20), ("ipc_receive", 3000)] {
        let data = payload(4242, len);
        let mut fds = [0i32; 2];
        unsafe { libc::pipe(fds.as_mut_ptr()) };
        let pid = unsafe { libc::fork() };
        if pid == 0 {
            let r = std::panic::catch_unwind(std::panic::AssertUnwindSafe(|| -> bool {
                match what {
                    "from_bytes" => {
                        mmap_fail(1);
                        let g = OsIpcSharedMemory::from_bytes(&data);
                        g.len() == len && g[..] == data[..]
                    },
                    "from_byte" => {
                        mmap_fail(1);
                        let g = OsIpcSharedMemory::from_byte(0x5a, len);
                        g.len() == len && g.iter().all(|b| *b == 0x5a)
                    },
                    "clone" => {
                        let g = OsIpcSharedMemory::from_bytes(&data);
                        mmap_fail(1);
                        let c = g.clone();
                        c.len() == len && c[..] == data[..]
                    },
                    "receive" => {
                        let g = OsIpcSharedMemory::from_bytes(&data);
                        let (tx, rx) = platform::channel().unwrap();
                        tx.send(b"z", vec![], vec![g]).unwrap();
                        mmap_fail(1);
                        match rx.recv() {
                            Ok((_, _, regs)) => regs.len() == 1 && regs[0].len() == len && regs[0][..] == data[..],
                            Err(_) => std::process::exit(12),
                        }
                    },
                    _ => {
                        let g = IpcSharedMemory::from_bytes(&data);
                        let (tx, rx) = ipc::channel::<IpcSharedMemory>().unwrap();
                        tx.send(g).unwrap();
                        mmap_fail(1);
                        match rx.recv() {
                            Ok(r) => r.len() == len && r[..] == data[..],
                            Err(_) => std::process::exit(12),
                        }
                    },
                }
            }));
            let code = match r {
                Ok(true) => 0,
                Ok(false) => 11,
                Err(_) => 10,
            };
            unsafe { libc::_exit(code) };
        }
        let mut st = 0;
        unsafe { libc::waitpid(pid, &mut st, 0) };
        unsafe {
            libc::close(fds[0]);
            libc::close(fds[1]);
        }
        let outcome = if libc::WIFSIGNALED(st) {
            format!("signal {}", libc::WTERMSIG(st))
        } else {
            match libc::WEXITSTATUS(st) {
                0 => "intact".to_string(),
                10 => "panic".to_string(),
                11 => "wrong".to_string(),
                12 => "error".to_string(),
                c => format!("exit {}", c),
            }
        };
        println!("{}", json!({"kind":"mmapfail","what":what,"len":len,"outcome":outcome}));
    }
}

pub fn run() {
    let stdin = std::io::stdin();
    for line in stdin.lock().lines() {
        let line = line.unwrap();
        let a = kv(&line);
        match a.get("op").map(|s| s.as_str()) {
            Some("zero") => {
                zero();
                traits();
            },
            Some("mmapfail") => mmapfail(),
            Some("script") => script(&a),
            Some("parked") => parked(&a),
            Some("case") => {
                mark(&format!("shm {}", a["id"]));
                case(&a);
                mark(&format!("endshm {}", a["id"]));
            },
            _ => {},
        }
    }
}
