//! `rset` driver (C06): receiver sets with many members, concurrent senders, members added before / during /
//! after traffic, EINTR injected into the waits.
use crate::conc::{tagged, untag};
use crate::util::*;
use ipc_channel::platform::{self, OsIpcReceiverSet, OsIpcSelectionResult, OsIpcSender};
use serde_json::json;
use std::io::BufRead;

pub fn run() {
    let stdin = std::io::stdin();
    let mut hangs = 0;
    for line in stdin.lock().lines() {
        let line = line.unwrap();
        if line.trim().is_empty() {
            continue;
        }
        if hangs >= 2 {
            // every hang costs a watchdog period (and leaves blocked threads behind): two are enough to report
            println!("{}", json!({"kind":"aborted","reason":"two hangs"}));
            break;
        }
        let a = kv(&line);
        let id: u64 = a["id"].parse().unwrap();
        // plan: per member "len,len,...:h" (h = sender dropped at the end, k = kept until the very end)
        let plans: Vec<(Vec<usize>, bool)> = a["plan"]
            .split(';')
            .map(|p| {
                let (l, f) = p.split_once(':').unwrap();
                (l.split(',').filter(|x| !x.is_empty()).map(|x| x.parse().unwrap()).collect(), f.starts_with('h'))
            })
            .collect();
        // phased: members whose flag ends in 'L' are added only after every event of the early members was reported
        let late: Vec<bool> = a["plan"].split(';').map(|p| p.ends_with('L')).collect();
        let mode = a.get("mode").cloned().unwrap_or_else(|| "before".into());
        let threads: usize = a.get("threads").map(|s| s.parse().unwrap()).unwrap_or(1);
        let eintr: i64 = a.get("eintr").map(|s| s.parse().unwrap()).unwrap_or(0);
        let m = plans.len();
        let mut txs: Vec<Option<OsIpcSender>> = Vec::new();
        let mut rxs = Vec::new();
        for _ in 0..m {
            let (t, r) = platform::channel().unwrap();
            txs.push(Some(t));
            rxs.push(Some(r));
        }
        let mut set = OsIpcReceiverSet::new().unwrap();
        let mut ids: Vec<Option<u64>> = vec![None; m];
        if mode == "before" {
            for i in 0..m {
                ids[i] = Some(set.add(rxs[i].take().unwrap()).unwrap());
            }
        }
        // sender threads: member i belongs to thread i % threads; a thread sends round-robin over its members
        let mut handles = Vec::new();
        for t in 0..threads {
            let mine: Vec<(usize, OsIpcSender, Vec<usize>, bool)> = (0..m)
                .filter(|i| i % threads == t)
                .map(|i| (i, txs[i].take().unwrap(), plans[i].0.clone(), plans[i].1))
                .collect();
            handles.push(std::thread::spawn(move || {
                let mut mine: Vec<_> = mine.into_iter().map(|(i, tx, l, h)| (i, Some(tx), l, h, 0usize)).collect();
                let mut keep = Vec::new();
                loop {
                    let mut progressed = false;
                    for e in mine.iter_mut() {
                        if e.4 < e.2.len() {
                            let d = tagged(e.0 as u64, e.4 as u64, e.2[e.4]);
                            let _ = e.1.as_ref().unwrap().send(&d, vec![], vec![]);
                            e.4 += 1;
                            progressed = true;
                        } else if let Some(tx) = e.1.take() {
                            if e.3 {
                                drop(tx);
                            } else {
                                keep.push(tx);
                            }
                        }
                    }
                    if !progressed {
                        break;
                    }
                }
                keep
            }));
        }
        let mut kept: Vec<OsIpcSender> = Vec::new();
        if mode == "after" {
            for h in handles.drain(..) {
                kept.extend(h.join().unwrap());
            }
        }
        if mode != "before" {
            if mode == "during" {
                std::thread::sleep(std::time::Duration::from_micros(300));
            }
            for i in 0..m {
                if !(mode == "phased" && late[i]) {
                    ids[i] = Some(set.add(rxs[i].take().unwrap()).unwrap());
                }
            }
        }
        let phased = mode == "phased";
        let early_closed: usize = (0..m).filter(|i| plans[*i].1 && !late[*i]).count();
        let early_msgs: usize = (0..m).filter(|i| !late[*i]).map(|i| plans[i].0.len()).sum();
        let mut late_rx: Vec<(usize, platform::OsIpcReceiver)> = Vec::new();
        if phased {
            for i in 0..m {
                if late[i] {
                    late_rx.push((i, rxs[i].take().unwrap()));
                }
            }
        }
        let expected_closed: usize = plans.iter().filter(|p| p.1).count();
        let expected_msgs: usize = plans.iter().map(|p| p.0.len()).sum();
        eintr_every(eintr);
        mark(&format!("rset {}", id));
        let res = with_watchdog(8_000, move || {
            let mut batches: Vec<Vec<serde_json::Value>> = Vec::new();
            let (mut nclosed, mut nmsgs) = (0usize, 0usize);
            let mut late_rx = late_rx;
            let mut late_ids: Vec<(usize, u64)> = Vec::new();
            while nclosed < expected_closed || nmsgs < expected_msgs {
                if phased && !late_rx.is_empty() && nclosed >= early_closed && nmsgs >= early_msgs {
                    for (i, r) in late_rx.drain(..) {
                        late_ids.push((i, set.add(r).unwrap()));
                    }
                }
                match set.select() {
                    Ok(evs) => {
                        let mut b = Vec::new();
                        for e in evs {
                            match e {
                                OsIpcSelectionResult::DataReceived(rid, d, _, _) => {
                                    let (s, q, l, ok) = untag(&d);
                                    b.push(json!([rid, "M", s, q, l, ok]));
                                    nmsgs += 1;
                                },
                                OsIpcSelectionResult::ChannelClosed(rid) => {
                                    b.push(json!([rid, "C"]));
                                    nclosed += 1;
                                },
                            }
                        }
                        batches.push(b);
                    },
                    Err(e) => {
                        batches.push(vec![json!(["ERR", format!("{:?}", std::io::Error::from(e))])]);
                        break;
                    },
                }
            }
            (batches, set, late_ids)
        });
        mark(&format!("endrset {}", id));
        eintr_every(0);
        let (batches, hang) = match res {
            Some((b, _set, late_ids)) => {
                for (i, rid) in late_ids {
                    ids[i] = Some(rid);
                }
                (b, false)
            },
            None => (vec![], true),
        };
        if hang {
            hangs += 1;
        }
        if !hang {
            for h in handles {
                kept.extend(h.join().unwrap());
            }
        }
        drop(kept);
        println!("{}", json!({"kind":"rset","id":id,"ids":ids,"batches":batches,"hang":hang,"mode":mode,"members":m}));
    }
}
