//! `rset` driver (C06): receiver sets with many members, concurrent senders, members added before / during /
//! after traffic, EINTR injected into the waits.
use crate::conc::{tagged, untag};
use crate::util::*;
use ipc_channel::ipc::{self, IpcReceiver, IpcReceiverSet, IpcSelectionResult, IpcSender};
use ipc_channel::platform::{self, OsIpcReceiver, OsIpcReceiverSet, OsIpcSelectionResult, OsIpcSender};
use serde_json::json;
use std::io::BufRead;

/// the two levels at which a receiver set exists: the platform's OsIpcReceiverSet and the public IpcReceiverSet
trait SetL: Send + 'static {
    type Rx: Send + 'static;
    type Tx: Send + 'static;
    fn chan() -> (Self::Tx, Self::Rx);
    fn send(tx: &Self::Tx, d: Vec<u8>);
    fn new() -> Self;
    fn add(&mut self, r: Self::Rx) -> u64;
    /// (id, Some(payload)) for a message, (id, None) for a closure
    fn select(&mut self) -> Result<Vec<(u64, Option<Vec<u8>>)>, String>;
}

impl SetL for OsIpcReceiverSet {
    type Rx = OsIpcReceiver;
    type Tx = OsIpcSender;
    fn chan() -> (OsIpcSender, OsIpcReceiver) {
        platform::channel().unwrap()
    }
    fn send(tx: &OsIpcSender, d: Vec<u8>) {
        let _ = tx.send(&d, vec![], vec![]);
    }
    fn new() -> Self {
        OsIpcReceiverSet::new().unwrap()
    }
    fn add(&mut self, r: OsIpcReceiver) -> u64 {
        OsIpcReceiverSet::add(self, r).unwrap()
    }
    fn select(&mut self) -> Result<Vec<(u64, Option<Vec<u8>>)>, String> {
        match OsIpcReceiverSet::select(self) {
            Ok(evs) => Ok(evs
                .into_iter()
                .map(|e| match e {
                    OsIpcSelectionResult::DataReceived(rid, d, _, _) => (rid, Some(d)),
                    OsIpcSelectionResult::ChannelClosed(rid) => (rid, None),
                })
                .collect()),
            Err(e) => Err(format!("{:?}", std::io::Error::from(e))),
        }
    }
}

impl SetL for IpcReceiverSet {
    type Rx = IpcReceiver<Vec<u8>>;
    type Tx = IpcSender<Vec<u8>>;
    fn chan() -> (IpcSender<Vec<u8>>, IpcReceiver<Vec<u8>>) {
        ipc::channel().unwrap()
    }
    fn send(tx: &IpcSender<Vec<u8>>, d: Vec<u8>) {
        let _ = tx.send(d);
    }
    fn new() -> Self {
        IpcReceiverSet::new().unwrap()
    }
    fn add(&mut self, r: IpcReceiver<Vec<u8>>) -> u64 {
        // both ways of adding a member, in turn
        static TURN: std::sync::atomic::AtomicUsize = std::sync::atomic::AtomicUsize::new(0);
        if TURN.fetch_add(1, std::sync::atomic::Ordering::SeqCst) % 2 == 0 {
            IpcReceiverSet::add(self, r).unwrap()
        } else {
            IpcReceiverSet::add_opaque(self, r.to_opaque()).unwrap()
        }
    }
    fn select(&mut self) -> Result<Vec<(u64, Option<Vec<u8>>)>, String> {
        match IpcReceiverSet::select(self) {
            Ok(evs) => Ok(evs
                .into_iter()
                .map(|e| match e {
                    IpcSelectionResult::ChannelClosed(rid) => (rid, None),
                    other => {
                        let (rid, m) = other.unwrap();
                        (rid, Some(m.to::<Vec<u8>>().unwrap_or_default()))
                    },
                })
                .collect()),
            Err(e) => Err(format!("{:?}", e)),
        }
    }
}

pub fn run() {
    let stdin = std::io::stdin();
    let mut hangs = 0;
    for line in stdin.lock().lines() {
        let line = line.unwrap();
        if line.trim().is_empty() {
            continue;
        }
        if hangs >= 2 {
            // every hang costs a watchdog period (and leaves blocked threads behind): two are enough to report
            println!("{}", json!({"kind":"aborted","reason":"two hangs"}));
            break;
        }
        let a = kv(&line);
        let hang = if a.get("level").map(|s| s == "ipc").unwrap_or(false) { one::<IpcReceiverSet>(&a) } else { one::<OsIpcReceiverSet>(&a) };
        if hang {
            hangs += 1;
        }
    }
}

fn one<S: SetL>(a: &std::collections::HashMap<String, String>) -> bool {
    {
        let id: u64 = a["id"].parse().unwrap();
        // plan: per member "len,len,...:h" (h = sender dropped at the end, k = kept until the very end)
        let plans: Vec<(Vec<usize>, bool)> = a["plan"]
            .split(';')
            .map(|p| {
                let (l, f) = p.split_once(':').unwrap();
                let mut v: Vec<usize> = Vec::new();
                for x in l.split(',').filter(|x| !x.is_empty()) {
                    // "len*count" = count messages of that length
                    match x.split_once('*') {
                        Some((a, b)) => v.extend(std::iter::repeat(a.parse::<usize>().unwrap()).take(b.parse().unwrap())),
                        None => v.push(x.parse().unwrap()),
                    }
                }
                (v, f.starts_with('h'))
            })
            .collect();
        // phased: members whose flag ends in 'L' are added only after every event of the early members was reported
        let late: Vec<bool> = a["plan"].split(';').map(|p| p.ends_with('L')).collect();
        let mode = a.get("mode").cloned().unwrap_or_else(|| "before".into());
        let threads: usize = a.get("threads").map(|s| s.parse().unwrap()).unwrap_or(1);
        let eintr: i64 = a.get("eintr").map(|s| s.parse().unwrap()).unwrap_or(0);
        let rev = a.get("rev").map(|s| s == "1").unwrap_or(false);
        let pace = a.get("pace").map(|s| s == "1").unwrap_or(false);
        let m = plans.len();
        let mut txs: Vec<Option<S::Tx>> = Vec::new();
        let mut rxs = Vec::new();
        for _ in 0..m {
            let (t, r) = S::chan();
            txs.push(Some(t));
            rxs.push(Some(r));
        }
        let mut set = S::new();
        let mut ids: Vec<Option<u64>> = vec![None; m];
        if mode == "before" {
            for i in 0..m {
                ids[i] = Some(set.add(rxs[i].take().unwrap()));
            }
        }
        // sender threads: member i belongs to thread i % threads; a thread sends round-robin over its members
        let mut handles = Vec::new();
        for t in 0..threads {
            let mut mine: Vec<(usize, S::Tx, Vec<usize>, bool)> = (0..m)
                .filter(|i| i % threads == t)
                .map(|i| (i, txs[i].take().unwrap(), plans[i].0.clone(), plans[i].1))
                .collect();
            if rev {
                mine.reverse();
            }
            handles.push(std::thread::spawn(move || {
                let mut mine: Vec<_> = mine.into_iter().map(|(i, tx, l, h)| (i, Some(tx), l, h, 0usize)).collect();
                let mut keep = Vec::new();
                loop {
                    let mut progressed = false;
                    for e in mine.iter_mut() {
                        if e.4 < e.2.len() {
                            let d = tagged(e.0 as u64, e.4 as u64, e.2[e.4]);
                            S::send(e.1.as_ref().unwrap(), d);
                            if pace {
                                // sweep through gaps of a few ns .. a few us so that the selecting thread is sometimes ahead of the
                                // sender (queue just drained) and sometimes behind
                                for _ in 0..((e.4 * (7 + e.0)) % 1500) {
                                    std::hint::spin_loop();
                                }
                            }
                            e.4 += 1;
                            progressed = true;
                        } else if let Some(tx) = e.1.take() {
                            if e.3 {
                                drop(tx);
                            } else {
                                keep.push(tx);
                            }
                        }
                    }
                    if !progressed {
                        break;
                    }
                }
                keep
            }));
        }
        let mut kept: Vec<S::Tx> = Vec::new();
        if mode == "after" {
            for h in handles.drain(..) {
                kept.extend(h.join().unwrap());
            }
        }
        if mode != "before" {
            if mode == "during" {
                std::thread::sleep(std::time::Duration::from_micros(300));
            }
            for i in 0..m {
                if !(mode == "phased" && late[i]) {
                    ids[i] = Some(set.add(rxs[i].take().unwrap()));
                }
            }
        }
        if a.get("forkdrop").map(|s| s == "1").unwrap_or(false) {
            // a forked child inherits the set and drops its copy (a worker leaving the scope, unwinding, ...): the parent's set
            // must go on reporting everything - the child's destructor may release the child's descriptors, nothing more
            let pid = unsafe { libc::fork() };
            if pid == 0 {
                let copy = unsafe { std::ptr::read(&set) };
                drop(copy);
                unsafe { libc::_exit(0) };
            }
            let mut st = 0;
            unsafe { libc::waitpid(pid, &mut st, 0) };
        }
        let phased = mode == "phased";
        let early_closed: usize = (0..m).filter(|i| plans[*i].1 && !late[*i]).count();
        let early_msgs: usize = (0..m).filter(|i| !late[*i]).map(|i| plans[i].0.len()).sum();
        let mut late_rx: Vec<(usize, S::Rx)> = Vec::new();
        if phased {
            for i in 0..m {
                if late[i] {
                    late_rx.push((i, rxs[i].take().unwrap()));
                }
            }
        }
        let expected_closed: usize = plans.iter().filter(|p| p.1).count();
        let expected_msgs: usize = plans.iter().map(|p| p.0.len()).sum();
        eintr_every(eintr);
        mark(&format!("rset {}", id));
        let res = with_watchdog(if pace { 30_000 } else { 8_000 }, move || {
            let mut batches: Vec<Vec<serde_json::Value>> = Vec::new();
            let (mut nclosed, mut nmsgs) = (0usize, 0usize);
            let mut late_rx = late_rx;
            let mut late_ids: Vec<(usize, u64)> = Vec::new();
            while nclosed < expected_closed || nmsgs < expected_msgs {
                if phased && !late_rx.is_empty() && nclosed >= early_closed && nmsgs >= early_msgs {
                    for (i, r) in late_rx.drain(..) {
                        late_ids.push((i, set.add(r)));
                    }
                }
                match set.select() {
                    Ok(evs) => {
                        let mut b = Vec::new();
                        for (rid, d) in evs {
                            match d {
                                Some(d) => {
                                    let (s, q, l, ok) = untag(&d);
                                    b.push(json!([rid, "M", s, q, l, ok]));
                                    nmsgs += 1;
                                },
                                None => {
                                    b.push(json!([rid, "C"]));
                                    nclosed += 1;
                                },
                            }
                        }
                        batches.push(b);
                    },
                    Err(e) => {
                        batches.push(vec![json!(["ERR", e])]);
                        break;
                    },
                }
            }
            (batches, set, late_ids)
        });
        mark(&format!("endrset {}", id));
        eintr_every(0);
        let (batches, hang) = match res {
            Some((b, _set, late_ids)) => {
                for (i, rid) in late_ids {
                    ids[i] = Some(rid);
                }
                (b, false)
            },
            None => (vec![], true),
        };
        if !hang {
            for h in handles {
                kept.extend(h.join().unwrap());
            }
        }
        drop(kept);
        println!("{}", json!({"kind":"rset","id":id,"ids":ids,"batches":batches,"hang":hang,"mode":mode,"members":m}));
        hang
    }
}
