//! `script` driver (C14): a value whose Serialize implementation is a script - emit data, embed endpoints,
//! issue nested sends (with their own attachments), fail.  The sender is an ipc-level IpcSender<Script>
//! connected to a platform-level one-shot server, so that the receiver sees the raw attachment list of
//! every message.
use crate::util::*;
use ipc_channel::ipc::{self, IpcError, IpcReceiver, IpcSender, IpcSharedMemory, TryRecvError};
use ipc_channel::platform::{OsIpcOneShotServer, OsIpcReceiver};
use serde::ser::SerializeTuple;
use serde::{Deserialize, Serialize, Serializer};
use serde_json::json;
use std::cell::RefCell;
use std::io::BufRead;

#[derive(Clone, Debug)]
pub enum Act {
    Emit,
    Tx(usize),
    Rx(usize),
    Region(usize),
    Nest(Vec<Act>, bool),
    Bytes,
    Fail,
}

struct World {
    out: Option<IpcSender<Script>>,          // where every send (outer and nested) goes
    senders: Vec<Option<IpcSender<u32>>>,    // endpoint e as a sender (we keep the receiver in `kept_rx`)
    receivers: Vec<Option<IpcReceiver<u32>>>, // endpoint e as a receiver (we keep the sender in `kept_tx`)
    regions: Vec<IpcSharedMemory>,
    nested_results: Vec<bool>,
    bytes: Option<(ipc::IpcBytesSender, ipc::IpcBytesReceiver)>, // a raw-bytes channel for sends issued from inside a serialiser
}
thread_local! {
    static WORLD: RefCell<World> = RefCell::new(World { out: None, senders: vec![], receivers: vec![], regions: vec![], nested_results: vec![], bytes: None });
}

pub struct Script(pub Vec<Act>);

impl Serialize for Script {
    fn serialize<S: Serializer>(&self, serializer: S) -> Result<S::Ok, S::Error> {
        let mut t = serializer.serialize_tuple(self.0.len())?;
        for a in &self.0 {
            match a {
                Act::Emit => t.serialize_element(&7u8)?,
                Act::Tx(e) => {
                    let s = WORLD.with(|w| w.borrow().senders[*e].clone());
                    match s {
                        Some(s) => t.serialize_element(&s)?,
                        None => t.serialize_element(&0u8)?,
                    }
                },
                Act::Rx(e) => {
                    let r = WORLD.with(|w| w.borrow_mut().receivers[*e].take());
                    match r {
                        Some(r) => t.serialize_element(&r)?, // the receiver is moved into the message; our object is dropped afterwards
                        None => t.serialize_element(&0u8)?,
                    }
                },
                Act::Region(g) => {
                    let r = WORLD.with(|w| w.borrow().regions[*g].clone());
                    t.serialize_element(&r)?
                },
                Act::Nest(body, propagate) => {
                    let out = WORLD.with(|w| w.borrow().out.clone()).unwrap();
                    let r = out.send(Script(body.clone()));
                    WORLD.with(|w| w.borrow_mut().nested_results.push(r.is_ok()));
                    if r.is_err() && *propagate {
                        return Err(serde::ser::Error::custom("nested send failed"));
                    }
                    t.serialize_element(&(r.is_ok() as u8))?
                },
                Act::Bytes => {
                    WORLD.with(|w| {
                        let mut w = w.borrow_mut();
                        if w.bytes.is_none() {
                            w.bytes = Some(ipc::bytes_channel().unwrap());
                        }
                        let (tx, rx) = w.bytes.as_ref().unwrap();
                        let _ = tx.send(&[1, 2, 3]);
                        let _ = rx.try_recv();
                    });
                    t.serialize_element(&9u8)?
                },
                Act::Fail => return Err(serde::ser::Error::custom("scripted failure")),
            }
        }
        t.end()
    }
}
impl<'de> Deserialize<'de> for Script {
    fn deserialize<D: serde::Deserializer<'de>>(_: D) -> Result<Self, D::Error> {
        Err(serde::de::Error::custom("Script is send-only"))
    }
}

fn parse(s: &str) -> Vec<Act> {
    // grammar: e | t<n> | r<n> | g<n> | f | N(<acts>) | P(<acts>)   separated by ','
    fn go(cs: &[char], i: &mut usize) -> Vec<Act> {
        let mut out = Vec::new();
        while *i < cs.len() {
            let c = cs[*i];
            *i += 1;
            match c {
                ',' => {},
                ')' => return out,
                'e' => out.push(Act::Emit),
                'f' => out.push(Act::Fail),
                'b' => out.push(Act::Bytes),
                't' | 'r' | 'g' => {
                    let mut n = 0usize;
                    while *i < cs.len() && cs[*i].is_ascii_digit() {
                        n = n * 10 + cs[*i].to_digit(10).unwrap() as usize;
                        *i += 1;
                    }
                    out.push(match c {
                        't' => Act::Tx(n),
                        'r' => Act::Rx(n),
                        _ => Act::Region(n),
                    });
                },
                'N' | 'P' => {
                    *i += 1; // '('
                    let body = go(cs, i);
                    out.push(Act::Nest(body, c == 'P'));
                },
                _ => {},
            }
        }
        out
    }
    let cs: Vec<char> = s.chars().collect();
    let mut i = 0;
    go(&cs, &mut i)
}

fn raw_fd(c: &ipc_channel::platform::OsOpaqueIpcChannel) -> i32 {
    // the descriptor number is not public; the Debug rendering shows it ("OsOpaqueIpcChannel { fd: 7 }")
    let d = format!("{:?}", c);
    d.chars().filter(|ch| ch.is_ascii_digit() || *ch == '-').collect::<String>().parse().unwrap_or(-1)
}

fn readable(fd: i32) -> bool {
    let mut p = [libc::pollfd { fd, events: libc::POLLIN, revents: 0 }];
    unsafe { libc::poll(p.as_mut_ptr(), 1, 0) > 0 && (p[0].revents & libc::POLLIN) != 0 }
}

pub fn run() {
    let stdin = std::io::stdin();
    for line in stdin.lock().lines() {
        let line = line.unwrap();
        if line.trim().is_empty() {
            continue;
        }
        let a = kv(&line);
        let id: u64 = a["id"].parse().unwrap();
        let body = parse(&a["body"]);
        let nend: usize = a["nend"].parse().unwrap(); // endpoints 0..nend: kind given by `kinds` (t = used as sender, r = as receiver)
        let kinds: Vec<bool> = a["kinds"].chars().map(|c| c == 't').collect();
        let nreg: usize = a.get("nreg").map(|s| s.parse().unwrap()).unwrap_or(0);
        let pre: Vec<Act> = a.get("pre").map(|s| parse(s)).unwrap_or_default(); // a (failing) send issued before, on the same thread
        let fds_before = open_fds().len();
        let result = {
            // receiver side at platform level
            let (server, name) = OsIpcOneShotServer::new().unwrap();
            let out: IpcSender<Script> = IpcSender::connect(name).unwrap();
            out.send(Script(vec![Act::Emit])).unwrap();
            let (rx, _first, _c, _r): (OsIpcReceiver, _, _, _) = server.accept().unwrap();
            let mut kept_rx = Vec::new();
            let mut kept_tx = Vec::new();
            WORLD.with(|w| {
                let mut w = w.borrow_mut();
                w.out = Some(out.clone());
                w.senders.clear();
                w.receivers.clear();
                w.regions.clear();
                w.nested_results.clear();
                for e in 0..nend {
                    let (s, r) = ipc::channel::<u32>().unwrap();
                    if kinds[e] {
                        w.senders.push(Some(s));
                        w.receivers.push(None);
                        kept_rx.push(r);
                        kept_tx.push(ipc::channel::<u32>().unwrap().0); // placeholder
                    } else {
                        w.senders.push(None);
                        w.receivers.push(Some(r));
                        kept_tx.push(s);
                        kept_rx.push(ipc::channel::<u32>().unwrap().1); // placeholder
                    }
                }
                for g in 0..nreg {
                    w.regions.push(IpcSharedMemory::from_bytes(&payload(500 + g as u64, 64 + g)));
                }
            });
            // predead=1: the earlier send is serialised successfully but then refused by the OS (its receiver is gone): what it
            // had collected must be released there and then, not travel with a later message
            let predead = a.get("predead").map(|s| s == "1").unwrap_or(false);
            let pre_res = if pre.is_empty() {
                None
            } else if predead {
                let (dtx, drx) = ipc::channel::<Script>().unwrap();
                drop(drx);
                Some(dtx.send(Script(pre)).is_ok())
            } else {
                Some(out.send(Script(pre)).is_ok())
            };
            mark(&format!("script {}", id));
            let res = out.send(Script(body)).is_ok();
            mark(&format!("endscript {}", id));
            // a plain message afterwards must carry nothing
            let after = out.send(Script(vec![Act::Emit, Act::Emit])).is_ok();
            let nested = WORLD.with(|w| w.borrow().nested_results.clone());
            // the program's own handles go away
            WORLD.with(|w| {
                let mut w = w.borrow_mut();
                w.out = None;
                w.senders.clear();
                w.receivers.clear();
                w.regions.clear();
                w.bytes = None;
            });
            drop(out);
            // drain the receiver: every message with its attachments
            let mut msgs = Vec::new();
            loop {
                match rx.try_recv() {
                    Ok((data, mut chans, regs)) => {
                        // receivers among the attachments: ask every kept sender to announce itself first
                        for (e, s) in kept_tx.iter().enumerate() {
                            if !kinds[e] {
                                let _ = s.send(e as u32);
                            }
                        }
                        let mut ids = Vec::new();
                        for c in chans.iter_mut() {
                            if readable(raw_fd(c)) {
                                // a receiving end: its kept sender has announced the endpoint id
                                let r = c.to_receiver();
                                match r.try_recv() {
                                    Ok((d, _, _)) if d.len() == 4 => ids.push(format!("AChan false {}", u32::from_le_bytes([d[0], d[1], d[2], d[3]]))),
                                    _ => ids.push("R?".to_string()),
                                }
                                while r.try_recv().is_ok() {}
                            } else {
                                // a sending end: push a nonce through it and see which kept receiver obtains something
                                let s = c.to_sender();
                                let _ = s.send(&[0xEE, 0xEE, 0xEE, 0xEE], vec![], vec![]);
                                let mut who = "S?".to_string();
                                for (e, r) in kept_rx.iter().enumerate() {
                                    if !kinds[e] {
                                        continue;
                                    }
                                    match r.try_recv() {
                                        Err(TryRecvError::Empty) | Err(TryRecvError::IpcError(IpcError::Disconnected)) => {},
                                        _ => {
                                            who = format!("AChan true {}", e);
                                            break;
                                        },
                                    }
                                }
                                ids.push(who);
                            }
                        }
                        let hex: String = data.iter().map(|b| format!("{:02x}", b)).collect();
                        msgs.push(json!({"len": data.len(), "data": hex, "chans": ids, "nchans": chans.len(), "nregions": regs.len()}));
                    },
                    Err(_) => break,
                }
            }
            // after everything is dropped every endpoint must be released
            drop(rx);
            let mut released = Vec::new();
            for e in 0..nend {
                if kinds[e] {
                    let st = loop {
                        match kept_rx[e].try_recv() {
                            Ok(_) | Err(TryRecvError::IpcError(IpcError::Bincode(_))) => continue,
                            Err(TryRecvError::Empty) => break false,
                            Err(TryRecvError::IpcError(IpcError::Disconnected)) => break true,
                            Err(_) => break false,
                        }
                    };
                    released.push(st);
                } else {
                    released.push(kept_tx[e].send(0).is_err());
                }
            }
            json!({"pre": pre_res, "res": res, "after": after, "nested": nested, "msgs": msgs, "released": released})
        };
        println!("{}", json!({"kind":"script","id":id,"result":result,"fds_before":fds_before,"fds_after":open_fds().len()}));
    }
}
