//! `async` driver (C20, feature `async`): receivers turned into streams from several threads, messages queued
//! before conversion and sent afterwards, senders dropped or kept, each stream consumed by its own executor.
use crate::util::*;
use futures::stream::StreamExt;
use ipc_channel::ipc::{self, IpcSender};
use serde_json::json;
use std::io::BufRead;

static ERR_ITEMS: std::sync::atomic::AtomicU64 = std::sync::atomic::AtomicU64::new(0);

pub fn run() {
    let stdin = std::io::stdin();
    for line in stdin.lock().lines() {
        let line = line.unwrap();
        if line.trim().is_empty() {
            continue;
        }
        let a = kv(&line);
        let id: u64 = a["id"].parse().unwrap();
        if a.get("op").map(|s| s == "abandon").unwrap_or(false) {
            // a consumer drops its stream while the sender lives on and keeps sending; the events of OTHER streams that share a
            // select batch with the abandoned one must not be disturbed
            let rounds: u32 = a["rounds"].parse().unwrap();
            let k: u32 = a["k"].parse().unwrap(); // messages on the healthy stream per round
            let mut failures: Vec<serde_json::Value> = Vec::new();
            for r in 0..rounds {
                let (atx, arx) = ipc::channel::<(u32, u32)>().unwrap();
                let (btx, brx) = ipc::channel::<(u32, u32)>().unwrap();
                let astream = arx.to_stream();
                let mut bstream = brx.to_stream();
                drop(astream);
                let _ = atx.send((0, 0));
                for q in 0..k {
                    let _ = btx.send((1, q));
                }
                let _ = atx.send((0, 1));
                drop(btx);
                let res = with_watchdog(4_000, move || {
                    let mut items: Vec<u32> = Vec::new();
                    let mut ended = false;
                    futures::executor::block_on(async {
                        while let Some(m) = bstream.next().await {
                            if let Ok(m) = m {
                                items.push(m.1);
                            }
                        }
                        ended = true;
                    });
                    (items, ended)
                });
                match res {
                    Some((items, true)) if items == (0..k).collect::<Vec<u32>>() => {},
                    Some((items, ended)) => failures.push(json!({"round": r, "items": items, "ended": ended})),
                    None => {
                        failures.push(json!({"round": r, "hang": true}));
                        break;
                    },
                }
                drop(atx);
            }
            println!("{}", json!({"kind":"abandon","id":id,"rounds":rounds,"k":k,"failures":failures}));
            continue;
        }
        if a.get("op").map(|s| s == "stagger").unwrap_or(false) {
            // several streams alive at once; they END one after the other (oldest first, or in the given order) while the others go on
            // carrying traffic: the end of one stream must not cost another its messages or its own end
            let n: usize = a["n"].parse().unwrap();
            let order: Vec<usize> = a["order"].split(',').map(|x| x.parse().unwrap()).collect();
            let mut txs: Vec<Option<IpcSender<(u32, u32)>>> = Vec::new();
            let (rtx, rrx) = crossbeam_channel::unbounded::<(usize, Vec<u32>, bool)>();
            for i in 0..n {
                let (tx, rx) = ipc::channel::<(u32, u32)>().unwrap();
                let mut stream = rx.to_stream();
                let rtx = rtx.clone();
                std::thread::spawn(move || {
                    let mut items = Vec::new();
                    let mut ended = false;
                    futures::executor::block_on(async {
                        while let Some(m) = stream.next().await {
                            if let Ok(m) = m {
                                items.push(m.1);
                            }
                        }
                        ended = true;
                    });
                    let _ = rtx.send((i, items, ended));
                });
                txs.push(Some(tx));
            }
            let mut seq = vec![0u32; n];
            let mut done: Vec<(usize, Vec<u32>, bool)> = Vec::new();
            for &victim in order.iter() {
                // a message on every stream that is still open, then the victim's sender goes and its stream has to end
                for i in 0..n {
                    if let Some(tx) = &txs[i] {
                        let _ = tx.send((i as u32, seq[i]));
                        seq[i] += 1;
                    }
                }
                txs[victim] = None;
                match rrx.recv_timeout(std::time::Duration::from_secs(4)) {
                    Ok(r) => done.push(r),
                    Err(_) => break,
                }
            }
            let results: Vec<serde_json::Value> = done.iter().map(|(i, it, e)| json!({"stream": i, "items": it, "ended": e})).collect();
            println!("{}", json!({"kind":"stagger","id":id,"n":n,"order":order,"sent":seq,"results":results}));
            continue;
        }
        if a.get("op").map(|s| s == "probe").unwrap_or(false) {
            // a stream is polled once while nothing is there (a probe with a throw-away waker: now_or_never), then awaited by ANOTHER
            // task on another thread: the task that waits must be the one that is woken
            use futures::FutureExt;
            let k: u32 = a["k"].parse().unwrap();
            let probes: u32 = a.get("probes").map(|s| s.parse().unwrap()).unwrap_or(1);
            let (tx, rx) = ipc::channel::<(u32, u32)>().unwrap();
            let mut stream = rx.to_stream();
            let mut early = 0;
            for _ in 0..probes {
                if stream.next().now_or_never().is_some() {
                    early += 1;
                }
            }
            let sender = std::thread::spawn(move || {
                std::thread::sleep(std::time::Duration::from_millis(30));
                for q in 0..k {
                    let _ = tx.send((0, q));
                    std::thread::sleep(std::time::Duration::from_millis(2));
                }
            });
            let res = with_watchdog(5_000, move || {
                let mut items: Vec<u32> = Vec::new();
                futures::executor::block_on(async {
                    while let Some(m) = stream.next().await {
                        if let Ok(m) = m {
                            items.push(m.1);
                        }
                    }
                });
                items
            });
            let _ = sender.join();
            println!("{}", json!({"kind":"probe","id":id,"k":k,"probes":probes,"early":early,"hang":res.is_none(),"items":res}));
            continue;
        }
        if a.get("op").map(|s| s == "unit").unwrap_or(false) {
            // items whose encoding is EMPTY (`()`, a unit struct, PhantomData): nothing but their count travels, and it must be exact
            #[derive(serde::Serialize, serde::Deserialize)]
            struct Marker;
            let before: u32 = a["before"].parse().unwrap();
            let after: u32 = a["after"].parse().unwrap();
            let (utx, urx) = ipc::channel::<()>().unwrap();
            let (mtx, mrx) = ipc::channel::<(Marker, std::marker::PhantomData<u64>)>().unwrap();
            for _ in 0..before {
                utx.send(()).unwrap();
                mtx.send((Marker, std::marker::PhantomData)).unwrap();
            }
            let mut us = urx.to_stream();
            let mut ms = mrx.to_stream();
            for _ in 0..after {
                utx.send(()).unwrap();
                mtx.send((Marker, std::marker::PhantomData)).unwrap();
            }
            drop(utx);
            drop(mtx);
            let res = with_watchdog(5_000, move || {
                let (mut nu, mut nm, mut bad) = (0u32, 0u32, 0u32);
                futures::executor::block_on(async {
                    while let Some(m) = us.next().await {
                        if m.is_ok() { nu += 1 } else { bad += 1 }
                    }
                    while let Some(m) = ms.next().await {
                        if m.is_ok() { nm += 1 } else { bad += 1 }
                    }
                });
                (nu, nm, bad)
            });
            println!("{}", json!({"kind":"unit","id":id,"before":before,"after":after,"hang":res.is_none(),"counts":res.map(|r| vec![r.0, r.1, r.2])}));
            continue;
        }
        let plan: Vec<(u32, u32, bool)> = a["plan"]
            .split(';')
            .map(|p| {
                let v: Vec<&str> = p.split(',').collect();
                (v[0].parse().unwrap(), v[1].parse().unwrap(), v[2] == "1")
            })
            .collect();
        let threads: usize = a.get("threads").map(|s| s.parse().unwrap()).unwrap_or(1);
        let n = plan.len();
        let mut txs: Vec<Option<IpcSender<(u32, u32)>>> = Vec::new();
        let mut rxs = Vec::new();
        for (i, p) in plan.iter().enumerate() {
            let (tx, rx) = ipc::channel::<(u32, u32)>().unwrap();
            for q in 0..p.0 {
                tx.send((i as u32, q)).unwrap();
            }
            txs.push(Some(tx));
            rxs.push(Some(rx));
        }
        // conversion from several threads; each stream is then consumed on its own thread / executor
        let (rtx, rrx) = crossbeam_channel::unbounded();
        let mut conv = Vec::new();
        for t in 0..threads {
            let mine: Vec<(usize, ipc::IpcReceiver<(u32, u32)>, u32, bool)> = (0..n)
                .filter(|i| i % threads == t)
                .map(|i| (i, rxs[i].take().unwrap(), plan[i].0 + plan[i].1, plan[i].2))
                .collect();
            let rtx = rtx.clone();
            conv.push(std::thread::spawn(move || {
                for (i, rx, total, dropped) in mine {
                    let mut stream = rx.to_stream();
                    let rtx = rtx.clone();
                    std::thread::spawn(move || {
                        let mut items: Vec<(u32, u32)> = Vec::new();
                        let mut ended = false;
                        let mut bad = 0;
                        futures::executor::block_on(async {
                            loop {
                                if !dropped && items.len() as u32 >= total {
                                    break; // a kept sender: the stream stays open, stop after the expected items
                                }
                                match stream.next().await {
                                    Some(Ok(m)) => items.push(m),
                                    Some(Err(_)) => {
                                        bad += 1;
                                        ERR_ITEMS.fetch_add(1, std::sync::atomic::Ordering::SeqCst);
                                    },
                                    None => {
                                        ended = true;
                                        break;
                                    },
                                }
                            }
                        });
                        let _ = rtx.send((i, items, ended, bad));
                    });
                }
            }));
        }
        // poison=i:k - before the k-th later message of stream i a complete message of another type is sent on its channel: the
        // stream must yield one error item for it and go on with everything that follows
        let poison: Option<(usize, u32)> = a.get("poison").and_then(|s| s.split_once(':').map(|(x, y)| (x.parse().unwrap(), y.parse().unwrap())));
        for (i, p) in plan.iter().enumerate() {
            for q in 0..p.1 {
                if poison == Some((i, q)) {
                    // the messages that follow are only sent once the consumer has been handed the error item: whatever the
                    // stream does on an undecodable item must not cost it the traffic that arrives afterwards
                    let before = ERR_ITEMS.load(std::sync::atomic::Ordering::SeqCst);
                    let _ = txs[i].as_ref().unwrap().clone().to_opaque().to::<u8>().send(7);
                    let t0 = std::time::Instant::now();
                    while ERR_ITEMS.load(std::sync::atomic::Ordering::SeqCst) == before && t0.elapsed().as_millis() < 2000 {
                        std::thread::sleep(std::time::Duration::from_micros(200));
                    }
                }
                let _ = txs[i].as_ref().unwrap().send((i as u32, p.0 + q));
            }
        }
        for h in conv {
            let _ = h.join();
        }
        let mut kept = Vec::new();
        for (i, tx) in txs.into_iter().enumerate() {
            if plan[i].2 {
                drop(tx);
            } else {
                kept.push(tx);
            }
        }
        drop(rtx);
        let mut results: Vec<serde_json::Value> = Vec::new();
        let deadline = std::time::Instant::now() + std::time::Duration::from_secs(10);
        let mut got = 0;
        while got < n {
            let left = deadline.saturating_duration_since(std::time::Instant::now());
            match rrx.recv_timeout(left) {
                Ok((i, items, ended, bad)) => {
                    results.push(json!({"stream": i, "items": items, "ended": ended, "bad": bad}));
                    got += 1;
                },
                Err(_) => break,
            }
        }
        println!("{}", json!({"kind":"async","id":id,"streams":n,"finished":got,"results":results}));
        drop(kept);
    }
}
