"""codec driver side (C16, C04 positions): message generators (valid encodings, mutations, random bytes,
type confusion), runner, Coq rendering."""
import random
import struct

from . import common as C

NTYPES = 14


def u64(n):
    return struct.pack("<Q", n % (1 << 64))


def u32(n):
    return struct.pack("<I", n % (1 << 32))


def rstring(rng):
    alphabet = ["a", "Z", "0", " ", "é", "€", "\U0001F600", "\n"]
    return "".join(rng.choice(alphabet) for _ in range(rng.choice([0, 1, 3, 8, 30]))).encode()


def enc_string(rng):
    s = rstring(rng)
    return u64(len(s)) + s


def enc_E(rng):
    k = rng.randrange(3)
    if k == 0:
        return u32(0)
    if k == 1:
        return u32(1) + u32(rng.getrandbits(32))
    return u32(2) + enc_string(rng) + (b"\x00" if rng.random() < 0.5 else b"\x01" + bytes([rng.randrange(256)]))


def gen_valid(k, rng):
    """(bytes, atts) of a well-formed message of expected type k; atts is a string over s(ender) r(eceiver) m(emory)"""
    if k == 1:
        return bytes([rng.randrange(256)]), ""
    if k == 2:
        return u32(rng.getrandbits(32)), ""
    if k == 3:
        return u64(rng.getrandbits(64)) + u64(rng.getrandbits(64)), ""
    if k == 4:
        return enc_string(rng), ""
    if k == 5:
        n = rng.choice([0, 1, 5, 100, 1000])
        return u64(n) + bytes(rng.randrange(256) for _ in range(n)), ""
    if k == 6:
        n = rng.randrange(5)
        return u64(n) + b"".join(u32(rng.getrandbits(32)) + enc_string(rng) for _ in range(n)), ""
    if k == 7:
        if rng.random() < 0.3:
            return b"\x00", ""
        n = rng.randrange(6)
        return b"\x01" + u64(n) + b"".join(u64(rng.getrandbits(64)) for _ in range(n)), ""
    if k == 8:
        return enc_E(rng), ""
    if k == 9:
        extra = rng.randrange(3)
        atts = list("s" + "s" * extra)
        return u64(rng.randrange(len(atts))), "".join(atts)
    if k == 10:
        atts = "rm" if rng.random() < 0.7 else "r"
        reg = u64(0) if "m" in atts and rng.random() < 0.8 else u64((1 << 64) - 1)
        return u64(0) + reg, atts
    if k == 11:
        n = rng.randrange(5)
        # channel list: n+1 senders and one receiver, receiver at a random position
        pos = rng.randrange(n + 2)
        chans = ["s"] * (n + 1)
        chans.insert(pos, "r")
        sidx = [i for i, c in enumerate(chans) if c == "s"]
        rng.shuffle(sidx)
        body = u64(n) + b"".join(u64(i) for i in sidx[:n]) + u64(sidx[n]) + u64(pos)
        return body, "".join(chans)
    if k == 12:
        n = rng.randrange(4)
        has_reg = rng.random() < 0.6
        atts = "s" * n + ("m" if has_reg else "")
        idx = list(range(n))
        rng.shuffle(idx)
        body = u64(rng.getrandbits(64)) + u64(n) + b"".join(u64(i) for i in idx)
        body += (b"\x01" + u64(0)) if has_reg else rng.choice([b"\x00", b"\x01" + u64((1 << 64) - 1)])
        body += enc_E(rng) + struct.pack("<d", rng.choice([0.0, -0.0, 1.5, float("inf"), 1e-310]))
        return body, atts
    if k == 13:
        # two receivers; with some probability both fields name the same attachment (a reused index: must be an error)
        a, b = rng.sample([0, 1], 2)
        if rng.random() < 0.35:
            b = a
        return u64(a) + u64(b), "rr"
    if k == 14:
        chans = ["r", "s"] + (["r"] if rng.random() < 0.6 else [])
        rng.shuffle(chans)
        ri = [i for i, c in enumerate(chans) if c == "r"]
        si = chans.index("s")
        body = u64(ri[0]) + u64(si)
        if len(ri) > 1:
            body += b"\x01" + u64(ri[1] if rng.random() < 0.6 else rng.choice([ri[0], si]))
        else:
            body += rng.choice([b"\x00", b"\x01" + u64(ri[0]), b"\x01" + u64(si)])
        return body, "".join(chans)
    raise ValueError(k)


def mutate(bs, atts, rng):
    bs = bytearray(bs)
    kind = rng.randrange(9)
    if kind == 0 and bs:
        bs[rng.randrange(len(bs))] ^= 1 << rng.randrange(8)
    elif kind == 1 and bs:
        del bs[rng.randrange(len(bs)):]
    elif kind == 2:
        bs += bytes(rng.randrange(256) for _ in range(rng.randrange(1, 9)))
    elif kind == 3 and len(bs) >= 8:
        # overwrite an aligned 8-byte field with an index that is out of range / huge / duplicate
        off = rng.randrange(0, len(bs) - 7)
        bs[off:off + 8] = u64(rng.choice([len(atts), len(atts) + 1, 1 << 40, (1 << 64) - 1, 0, 1]))
    elif kind == 4:
        atts = atts[:-1] if atts else atts            # an attachment is missing
    elif kind == 5:
        atts = atts + rng.choice("srm")                # an attachment the value never references
    elif kind == 6 and atts:
        i = rng.randrange(len(atts))                   # an attachment of the wrong kind
        atts = atts[:i] + rng.choice("srm") + atts[i + 1:]
    elif kind == 7 and bs:
        for _ in range(rng.randrange(1, 4)):
            bs[rng.randrange(len(bs))] = rng.randrange(256)
    else:
        bs = bytearray(rng.randrange(256) for _ in range(rng.choice([0, 1, 7, 8, 9, 16, 40, 300, 4096])))
    return bytes(bs), atts


def gen_cases(rng, n, nid):
    cases = []
    for _ in range(n):
        k = rng.randrange(1, NTYPES + 1)
        bs, atts = gen_valid(k, rng)
        stream = rng.random()
        decode_as = k
        if stream < 0.45:
            kind = "valid"
        elif stream < 0.85:
            kind = "mutated"
            bs, atts = mutate(bs, atts, rng)
        else:
            kind = "confused"                          # a different type on the other end
            decode_as = rng.randrange(1, NTYPES + 1)
        atts = atts[:8]
        dropm = 1 if rng.random() < 0.07 else 0
        if rng.random() < 0.04:
            # long text payloads that are valid UTF-8 throughout, multi-byte characters at every alignment: received as a raw message,
            # logged ({:?}) and dropped, or decoded as some other type
            ch = rng.choice(["é", "€", "\U0001F600", "ß€"])
            txt = ("x" * rng.randrange(4) + ch * rng.randrange(90, 320)).encode()
            bs, atts, kind = u64(len(txt)) + txt, "", "longtext"
            decode_as = rng.choice([4, 4, 5, 8, 12])
            dropm = 1 if rng.random() < 0.7 else 0
        cases.append({"id": next(nid), "ty": decode_as, "bytes": bs[:4200], "atts": atts, "kind": kind, "drop": dropm})
    return cases


def run_cases(binp, cases, timeout=600):
    """runs the cases in sacrificial harness processes; a process that reports a panic or dies is restarted after it"""
    out = {}
    todo = list(cases)
    guard = 0
    while todo and guard < 60:
        guard += 1
        lines = ["id=%d ty=%d bytes=%s atts=%s drop=%d" % (c["id"], c["ty"], c["bytes"].hex(), c["atts"], c["drop"]) for c in todo]
        recs, _, rc, err = C.run_harness(binp, "codec", lines, shim=False, timeout=timeout)
        got = {r["id"]: r for r in recs if r.get("kind") == "dec"}
        out.update(got)
        done = [c for c in todo if c["id"] in got]
        rest = [c for c in todo if c["id"] not in got]
        if rc != 0 and rest and not (done and got[done[-1]["id"]]["out"] == "Panic"):
            # the process died without reporting: the first unprocessed case killed it
            out[rest[0]["id"]] = {"id": rest[0]["id"], "out": "Died(rc=%s) %s" % (rc, err[-300:]), "released": [], "fds_before": 0, "fds_after": 0}
            rest = rest[1:]
        if not rest or rc == 0:
            break
        todo = rest
    return [{"case": c, "rec": out.get(c["id"])} for c in cases]


HEADER = ("From Coq Require Import ZArith List Bool.\nFrom IPC Require Import Codec CodecCheck.\n"
          "Import ListNotations.\nOpen Scope Z_scope.\n")


def coq_term(it):
    c, rec = it["case"], it["rec"]
    if rec is None or c["drop"]:
        return None
    o = rec["out"]
    nch = sum(1 for a in c["atts"] if a in "sr")
    nrg = sum(1 for a in c["atts"] if a == "m")
    bs = "[" + "; ".join(str(b) for b in c["bytes"]) + "]"
    if o.startswith("Ok "):
        term = o[3:]
        if "?" in term:
            return "check_dec_class (ty_of %d) %s %d %d true" % (c["ty"], bs, nch, nrg)
        import re
        term = re.sub(r"(VSender|VReceiver|VEnum|Some) (\d+)", r"\1 \2%nat", term)
        return "check_dec (ty_of %d) %s %d %d (Some (%s))" % (c["ty"], bs, nch, nrg, term)
    if o == "Err":
        return "check_dec (ty_of %d) %s %d %d None" % (c["ty"], bs, nch, nrg)
    return "false"


def oracle(it):
    c, rec = it["case"], it["rec"]
    if rec is None:
        return "no record for the case (harness lost it)"
    o = rec["out"]
    if o == "Panic":
        return "receiving this message panicked the receiving thread"
    if o.startswith("Died"):
        return "receiving this message terminated the receiving process: %s" % o
    if o.startswith("Other") or o == "SendErr":
        return "unexpected receive result %s" % o
    if not all(rec["released"]):
        return "an attachment that was not handed to the program (or was dropped with the value) is still open: released=%s" % rec["released"]
    if rec["fds_after"] != rec["fds_before"]:
        return "descriptor count changed: %d -> %d" % (rec["fds_before"], rec["fds_after"])
    if rec.get("maps_after") != rec.get("maps_before"):
        return "shared mappings changed: %s -> %s" % (rec.get("maps_before"), rec.get("maps_after"))
    return None
