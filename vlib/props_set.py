"""Checks for C06 (rset driver)."""
import concurrent.futures
import itertools
import random

from . import common as C
from . import frag as F
from .props_frag import build_all, finish_proof

EPOLLET = 1 << 31


def gen_plan(rng, m, S, maxmsgs=4):
    cap, f = F.ffs(S), F.fs(S)
    sizes = [40, 64, 900, cap, cap + 1, cap + f + 100]
    plans = []
    for _ in range(m):
        k = rng.randint(0, maxmsgs)
        plans.append(([rng.choice(sizes) if rng.random() < 0.3 else 40 for _ in range(k)], rng.random() < 0.8))
    if not any(h for _, h in plans) and not any(l for l, _ in plans):
        plans[0] = ([40], True)
    return plans


def _runs(l):
    out, i = [], 0
    while i < len(l):
        j = i
        while j < len(l) and l[j] == l[i]:
            j += 1
        out.append("%d*%d" % (l[i], j - i) if j - i > 3 else ",".join(str(l[i]) for _ in range(j - i)))
        i = j
    return ",".join(out)


def plan_str(plans, late=None):
    return ";".join("%s:%s%s" % (_runs(l), "h" if h else "k", "L" if late and late[i] else "") for i, (l, h) in enumerate(plans))


def rset_oracle(it):
    c, rec = it["case"], it["rec"]
    if rec is None:
        return "harness died: %s" % it["stderr"][-300:]
    if rec["hang"]:
        return "select went on blocking although messages or closures were pending (watchdog)"
    ids = rec["ids"]
    if None in ids:
        return "a member was never added (select blocked before the late members could be added?)"
    late = c.get("late") or [False] * len(ids)
    # members that are in the set at the same time: all early ones with each other; a late one with every member that is
    # still in the set when it is added (early members that never close) and with the other late ones
    for i in range(len(ids)):
        for j in range(i + 1, len(ids)):
            together = (late[i] == late[j]) or (not c["plans"][i][1] if not late[i] else not c["plans"][j][1])
            if together and ids[i] == ids[j]:
                return "two members that are in the set at the same time share the id %s (members %d and %d)" % (ids[i], i, j)
    member_of = {rid: i for i, rid in enumerate(ids)}
    per = {}
    for b in rec["batches"]:
        for e in b:
            if e[0] == "ERR":
                return "select failed: %s" % e[1]
            per.setdefault(e[0], []).append(e)
    for i, (lens, h) in enumerate(c["plans"]):
        evs = per.get(ids[i], [])
        msgs = [e for e in evs if e[1] == "M"]
        closed = [k for k, e in enumerate(evs) if e[1] == "C"]
        for k, e in enumerate(msgs):
            if not e[5] or e[2] != i or e[3] != k:
                return ("member %d (id %s): event %d is not its message number %d intact (got sender %s seq %s intact=%s)"
                        % (i, ids[i], k, k, e[2], e[3], e[5]))
        if len(msgs) != len(lens):
            return "member %d (id %s): %d of %d messages reported" % (i, ids[i], len(msgs), len(lens))
        if h:
            if len(closed) != 1:
                return "member %d (id %s): %d closed events instead of exactly one" % (i, ids[i], len(closed))
            if closed[0] != len(evs) - 1:
                return "member %d (id %s): closed event reported before its last message" % (i, ids[i])
        elif closed:
            return "member %d (id %s): reported closed although a sender is still alive" % (i, ids[i])
    for rid in per:
        if rid not in member_of:
            return "event tagged with id %s which no add() returned" % rid
    return None


def discipline(it, trace):
    """the library's side of the LTS read off the selecting thread's system calls"""
    c = it["case"]
    start = next((r for r in trace if r["call"] == "mark" and r.get("label") == "rset %d" % c["id"]), None)
    end = next((r for r in trace if r["call"] == "mark" and r.get("label") == "endrset %d" % c["id"]), None)
    if start is None or end is None:
        return None, 0
    calls = [r for r in trace if start["seq"] < r["seq"] < end["seq"] and r["call"] in ("epoll_wait", "recvmsg")]
    tids = {r["tid"] for r in calls if r["call"] == "epoll_wait"}
    calls = [r for r in calls if r["tid"] in tids]
    n = 0
    i = 0
    while i < len(calls):
        r = calls[i]
        if r["call"] != "epoll_wait":
            return "a receive outside a batch: %s" % r, n
        if r["max"] != 10 or r["timeout"] != -1:
            return "epoll_wait called with max=%s timeout=%s" % (r["max"], r["timeout"]), n
        n += 1
        j = i + 1
        if r["res"] <= 0:
            if j < len(calls) and calls[j]["call"] != "epoll_wait":
                return "after an interrupted/empty wait the library did something else than waiting again: %s" % calls[j], n
            i = j
            continue
        last = {}
        order = []
        while j < len(calls) and calls[j]["call"] == "recvmsg":
            fd = calls[j]["fd"]
            if fd not in last:
                order.append(fd)
            last[fd] = calls[j]
            j += 1
        if len(order) != r["res"]:
            return "epoll_wait returned %d ready members but %d were drained" % (r["res"], len(order)), n
        for fd, q in last.items():
            if not (q["res"] == 0 or (q["res"] == -1 and q.get("errno") == 11)):
                return "member fd %d was not drained to EWOULDBLOCK or closure (last read returned %s errno %s)" % (fd, q["res"], q.get("errno")), n
        i = j
    adds = [r for r in trace if r["call"] == "epoll_ctl" and r.get("op") == 1 and start["seq"] - 5000 < r["seq"] < end["seq"]]
    for r in adds:
        if not (r["events"] & EPOLLET):
            return "a member was registered level-triggered (events=%s)" % r["events"], n
    return None, n


def model_term(it):
    c, rec = it["case"], it["rec"]
    m = len(c["plans"])
    pre = ["LNewChan"] * m
    for i, (lens, h) in enumerate(c["plans"]):
        pre += ["LSend %d %d" % (i, k) for k in range(len(lens))]
        if h:
            pre.append("LHup %d" % i)
    pre += ["LAdd %d" % i for i in range(m)]
    obs = []
    for b in rec["batches"]:
        for e in b:
            obs.append("EvMsg %d %d" % (e[0], e[3]) if e[1] == "M" else "EvClosed %d" % e[0])
    return "check_rset [%s] %d [%s]" % ("; ".join(pre), len(rec["batches"]), "; ".join(obs))


def check_C06(chk):
    thorough = chk.tier == "thorough"
    rng = random.Random(chk.seed)
    proof_ok = C.proof_stage(chk, "C06")
    bins = build_all(chk, ["default", "inprocess"])
    if not all(bins.values()):
        return
    S = 4096
    nid = itertools.count(1)
    cases = []
    n = 1500 if thorough else 60
    for k in range(n):
        m = rng.choice([1, 2, 5, 9, 10, 11, 12, 25, 40, 64]) if k % 2 else rng.randint(1, 64)
        mode = ["after", "before", "during", "phased"][k % 4]
        plans = gen_plan(rng, m, S)
        late = [False] * m
        if mode == "phased":
            # early members (some closing, some staying) first; the late ones are added after those closures were reported
            late = [i >= (m + 1) // 2 for i in range(m)]
            if all(late):
                late[0] = False
        cases.append({"id": next(nid), "plans": plans, "late": late, "mode": mode, "threads": 1 if mode == "after" else rng.randint(1, 8),
                      "eintr": 3 if k % 5 == 0 else 0,
                      # a forked child inherits the set (members added, traffic pending) and drops its copy before the parent selects
                      "forkdrop": mode == "after" and k % 8 == 0})

    # bursts: one or two members with many more messages pending at a single readiness event than any per-event budget
    # (default socket buffers, so that they really are all queued when the member becomes ready)
    bursts = []
    for k in range(160 if thorough else 16):
        m = rng.randint(1, 5)
        plans = [([40] * rng.randint(0, 3), rng.random() < 0.7) for _ in range(m)]
        for j in rng.sample(range(m), min(m, rng.randint(1, 2))):
            plans[j] = ([40] * rng.choice([31, 32, 33, 34, 50, 64, 65, 100, 129, 150]), rng.random() < 0.7)
        mode = ["after", "before", "during", "after"][k % 4]
        bursts.append({"id": next(nid), "plans": plans, "late": [False] * m, "mode": mode, "threads": 1 if mode == "after" else rng.randint(1, 3),
                       "eintr": 0, "burst": True})

    # the public IpcReceiverSet (typed messages): a slice of the cases above, plus batches that carry many results of several
    # members at once, the members becoming ready in the opposite order of their ids, plus heavy concurrent traffic
    ipc_cases = [dict(c, id=next(nid), level="ipc", eintr=0) for c in cases[:24 if not thorough else 200]]
    for k in range(60 if thorough else 10):
        m = rng.randint(2, 6)
        plans = [([40] * rng.randint(8, 40), rng.random() < 0.6) for _ in range(m)]
        mode = ["after", "before"][k % 2]
        ipc_cases.append({"id": next(nid), "plans": plans, "late": [False] * m, "mode": mode, "threads": 1 if mode == "after" else rng.randint(1, 3),
                          "eintr": 0, "burst": True, "level": "ipc", "rev": k % 3 != 2})
    races = []
    for k in range(12 if thorough else 3):
        m = rng.randint(2, 4)
        races.append({"id": next(nid), "plans": [([40] * rng.randint(250, 400), True) for _ in range(m)], "late": [False] * m, "mode": "before", "threads": m,
                      "eintr": 0, "burst": True, "level": ["ipc", "os"][k % 2]})
    # paced senders: the selecting thread keeps finding a member's queue just drained while the next message is on its way
    for k in range(4 if thorough else 2):
        m = 3
        races.append({"id": next(nid), "plans": [([40] * (30000 if thorough else 12000), True) for _ in range(m)], "late": [False] * m, "mode": "before", "threads": m,
                      "eintr": 0, "burst": True, "level": ["ipc", "os"][k % 2], "pace": True})

    def run(chunk, binp=None, shim=True):
        lines = ["id=%d plan=%s mode=%s threads=%d eintr=%d%s%s" % (c["id"], plan_str(c["plans"], c.get("late")), c["mode"], c["threads"], c["eintr"],
                                                                 " level=ipc" if c.get("level") == "ipc" else "", (" rev=1" if c.get("rev") else "") + (" pace=1" if c.get("pace") else "") + (" forkdrop=1" if c.get("forkdrop") else "")) for c in chunk]
        env = {} if (chunk and chunk[0].get("burst")) else {"VSHIM_SNDBUF": S}
        recs, trace, rc, err = C.run_harness(binp or bins["default"], "rset", lines, env_extra=env, shim=shim, timeout=900)
        by = {r["id"]: r for r in recs if r.get("kind") == "rset"}
        aborted = any(r.get("kind") == "aborted" for r in recs)
        return [{"case": c, "rec": by.get(c["id"]), "stderr": err if c["id"] not in by else "", "trace": trace} for c in chunk
                if c["id"] in by or not aborted]
    chunks = [cases[i::8] for i in range(8)] + [ch for ch in (bursts[i::4] for i in range(4)) if ch]
    chunks += [[c for c in ipc_cases if not c.get("burst")], [c for c in ipc_cases if c.get("burst")], races]
    with concurrent.futures.ThreadPoolExecutor(max_workers=8) as ex:
        items = [it for r in ex.map(run, chunks) for it in r]
    # in-process transport: oracle only (one event per select by design)
    inp = [dict(c, id=next(nid)) for c in cases[:20]]
    for c in inp:
        c["eintr"] = 0
        c["forkdrop"] = False
    inp += [dict(c, id=next(nid)) for c in ipc_cases[:8] + [c for c in ipc_cases if c.get("burst")][:6] + races]
    iitems = run(inp, bins["inprocess"], False)
    fails, waits = [], 0
    for it in items + iitems:
        why = rset_oracle(it)
        if why is None and it in items and it["trace"] and not it["case"].get("level"):
            why, nw = discipline(it, it["trace"])
            waits += nw
        if why:
            fails.append((it, why))
    for it, why in fails[:8]:
        c = it["case"]
        chk.failing_input(why, {"members": len(c["plans"]), "plan": plan_str(c["plans"]), "mode": c["mode"], "threads": c["threads"], "eintr_every": c["eintr"],
                                "observed_batches": (it["rec"] or {}).get("batches", [])[:6]},
                          key="plan=%s mode=%s threads=%d eintr=%d" % (plan_str(c["plans"])[:200], c["mode"], c["threads"], c["eintr"]))
    seq_items = [it for it in items if it["case"]["mode"] == "after" and it["rec"] and not it["rec"]["hang"] and not it["case"].get("level")]
    todo = [(i, model_term(it)) for i, it in enumerate(seq_items)]
    header = "From Coq Require Import List Bool.\nFrom IPC Require Import RSet RSetCheck.\nImport ListNotations.\n"
    res, errors = C.coq_eval_sharded(header, todo, lambda p: "Eval vm_compute in (%d, %s)." % p, "c06", shard=20)
    bad = [seq_items[i] for i, _ in todo if res.get(i) != "true"]
    # in-process build: TRACE ACCEPTANCE on the InprocSet LTS for the scenarios in which everything was sent before the first select
    # (which ready member crossbeam's Select picks is its choice: every observed step must be enabled in the model and leave nothing pending)
    itodo = []
    for it in iitems:
        c, rec = it["case"], it["rec"]
        if c["mode"] != "after" or rec is None or rec["hang"] or c.get("level") == "ipc" and False:
            continue
        plans = "; ".join("([%s], %s)" % ("; ".join(str(k) for k in range(len(l))), "true" if h else "false") for l, h in c["plans"])
        obs = "; ".join(("EMsg %d %d" % (e[0], e[3])) if e[1] == "M" else ("EClosed %d" % e[0]) for b in rec["batches"] for e in b if e[0] != "ERR")
        itodo.append((len(itodo), "check_iset [%s] [%s] [%s]" % (plans, "; ".join(str(x) for x in rec["ids"]), obs), it))
    iheader = "From Coq Require Import List Bool.\nFrom IPC Require Import InprocSet InprocSetCheck.\nImport ListNotations.\n"
    ires, ierrors = C.coq_eval_sharded(iheader, [(i, t) for i, t, _ in itodo], lambda p: "Eval vm_compute in (%d, %s)." % p, "c06inproc", shard=10)
    ibad = [it for i, t, it in itodo if ires.get(i) != "true"]
    chk.coverage["inproc_set_scenarios_accepted"] = len(itodo) - len(ibad)
    if ierrors:
        chk.unproved("model evaluation (coqc on in-process receiver-set traces) failed", ierrors[0][-1500:])
    if ibad and not fails:
        it = ibad[0]
        chk.unproved("trace acceptance InprocSetCheck.check_iset: the select results of the in-process build are not a run of the InprocSet LTS on %d of %d scenarios" % (len(ibad), len(itodo)),
                     {"plan": plan_str(it["case"]["plans"]), "observed_batches": it["rec"]["batches"][:6], "ids": it["rec"]["ids"]})
    cov = chk.coverage
    cov["evaluations"] = len(items) + len(iitems)
    cov["traces_validated_against_impl"] = len(todo)
    cov["waits_checked_for_discipline"] = waits
    cov["distinct_nontrivial"] = len({plan_str(it["case"]["plans"]) + it["case"]["mode"] for it in items if len(it["case"]["plans"]) > 10 or it["case"]["mode"] != "after"})
    cov["correspondence_mismatches"] = len(bad) + len(ibad)
    cov["rule"] = ("rset driver: sets of 1..64 members (more than the batch capacity of 10 ready at once), 0..4 messages per member of mixed single/multi-packet sizes, "
                   "senders dropped or kept, 1..8 sender threads, members added before, during and after the traffic and - phased - after earlier members' closures were reported, EINTR injected into every 3rd wait; per-member "
                   "event oracle (messages in order, intact, tagged with the member's id, exactly one closure at the end, distinct ids); the selecting thread's system "
                   "calls must follow the edge-trigger discipline (every batch entry drained to EWOULDBLOCK or closure, wait again after EINTR, capacity 10, EPOLLET); "
                   "the sequential scenarios are replayed on the RSet LTS and the exact event order compared; the same oracle on the public IpcReceiverSet (typed messages; batches carrying "
                   "8..40 results of each of 2..6 members, members becoming ready in the opposite order of their ids; 250..400 messages per member racing with select); in-process build: oracle only; "
                   "non-trivial = more than 10 members or concurrent traffic")
    cov["input_distribution"] = {"modes": {m: sum(1 for it in items if it["case"]["mode"] == m) for m in ("after", "before", "during", "phased")},
                                 "members": {"<=10": sum(1 for it in items if len(it["case"]["plans"]) <= 10), ">10": sum(1 for it in items if len(it["case"]["plans"]) > 10)},
                                 "with_eintr": sum(1 for it in items if it["case"]["eintr"])}
    for it in seq_items[:2]:
        chk.sample({"plan": plan_str(it["case"]["plans"])[:200], "mode": it["case"]["mode"], "batches": it["rec"]["batches"][:3]})
    if errors:
        chk.unproved("model evaluation (coqc on generated cases) failed", errors[0][-1500:])
    if bad and not fails:
        it = bad[0]
        chk.unproved("correspondence RSetCheck.check_rset: event order of a sequential scenario differs from the RSet LTS on %d of %d scenarios" % (len(bad), len(todo)),
                     {"plan": plan_str(it["case"]["plans"]), "observed_batches": it["rec"]["batches"], "model_term": model_term(it)[:2000]})
    chk.assumptions += ["edge-triggered epoll semantics (ready list, re-arming on arrival and hang-up, EPOLL_CTL_DEL) are kernel behaviour: modelled in RSet.v, validated by "
                        "the runs with more than 10 ready members and adds while readable",
                        "real thread scheduling is not exhibited by the model: the theorems cover every interleaving, the concurrent runs sample some"]
    # a member whose sender process dies at every point of a multi-fragment send (crash driver, observed through a set that only
    # polls after the crash): the messages sent completely are reported, and the closure - or the survivor's message - follows
    from . import props_conc as PCN
    shapes = PCN.crash_shapes(4096)
    ccases, cid = [], itertools.count(1)
    for npk in (2, 3):
        ncalls = 1 + (3 + npk) + 1
        for k in range(0, ncalls + 2):
            for surv in (0, 1):
                ccases.append({"id": next(cid), "len": shapes[npk], "k": k, "survivor": surv, "natt": 0, "observe": "select", "npk": npk, "S": 4096})
    citems = PCN.run_crash(bins["default"], 4096, ccases)
    for it in citems:
        why = PCN.crash_oracle(it)
        if why:
            fails.append((it, why))
            c = it["case"]
            chk.failing_input("a set member whose sender process was killed before its call %d of a %d-packet send: %s" % (c["k"], c["npk"], why),
                              {"input": c, "child_progress": it["child"], "observed": it["rec"]}, key="c06crash:npk=%d k=%d survivor=%d" % (c["npk"], c["k"], c["survivor"]))
    chk.coverage["crash_member_scenarios"] = len(ccases)
    # ... and the same runs replayed on the RSet LTS with the interrupted message marked torn (message ids: 1 = the small message,
    # 2 = the multi-fragment one, 3 = the survivor's): exact event list of the one select() the observer needs
    ctodo = []
    for it in citems:
        c, rec, chd = it["case"], it["rec"], it["child"]
        if rec is None or rec["hang"]:
            continue
        pre = ["LNewChan"] + (["LSend 0 1"] if chd["p_sent"] else []) + (["LSend 0 2"] if chd["t_first"] else []) + \
              (["LSend 0 3"] if c["survivor"] else ["LHup 0"]) + ["LAdd 0"]
        torn = ["2"] if chd["t_first"] and chd["t_follow"] < c["npk"] - 1 else []   # whole once the last fragment is out
        ids = {(7, 0): 1, (7, 1): 2, (9, 0): 3}
        obs = []
        for e in rec["log"]:
            if isinstance(e, dict) and "msg" in e:
                obs.append("EvMsg 0 %d" % ids.get((e["msg"][0], e["msg"][1]), 99))
            elif e == "Disconnected":
                obs.append("EvClosed 0")
            elif isinstance(e, str):
                obs.append("EvClosed 77")   # an error word: never matches
        ctodo.append((len(ctodo), "check_rset_torn [%s] [%s] 1 [%s]" % ("; ".join(torn), "; ".join(pre), "; ".join(obs)), it))
    cres, cerrors = C.coq_eval_sharded(header, [(i, t) for i, t, _ in ctodo], lambda p: "Eval vm_compute in (%d, %s)." % p, "c06crash", shard=20)
    cbad = [(t, it) for i, t, it in ctodo if cres.get(i) != "true"]
    chk.coverage["crash_member_scenarios_replayed_on_model"] = len(ctodo) - len(cbad)
    if cerrors:
        chk.unproved("model evaluation (coqc on crash-member cases) failed", cerrors[0][-1500:])
    if cbad and not fails:
        t, it = cbad[0]
        chk.unproved("correspondence RSetCheck.check_rset_torn: what a set reports about a member whose sender was killed inside a send differs from the RSet LTS on %d of %d kill points"
                     % (len(cbad), len(ctodo)), {"input": it["case"], "child_progress": it["child"], "observed": it["rec"], "model_term": t})
    bad = bad + [it for _, it in cbad]
    # the typed IpcReceiverSet inside whole-API programs (members with embedded endpoints / regions / undecodable messages, sets dropped
    # with pending traffic), against the Api model: default and in-process builds
    from . import props_prog as PP
    af, ab = PP.api_stage(chk, "C06", bins, ["default", "inprocess"], 400 if thorough else 45, 60, seed_off=31)
    fails = fails + [None] * af
    bad = bad + [None] * ab
    finish_proof(chk, proof_ok, fails, bad)


# ------------------------------------------------------------------ C07 / C17 (router driver)
def gen_router_cases(rng, n, stops):
    cases = []
    for k in range(n):
        r = rng.randint(1, 32) if k % 3 else rng.randint(0, 16)
        plan = []
        for _ in range(r):
            kind = rng.random()
            # x: crossbeam route with the router's own unbounded channel; b / z: the consumer's own bounded sender (capacity 1 / 0), read slowly
            plan.append((rng.choice([0, 0, 1, 3, 10, 50]) if rng.random() < 0.6 else 0, rng.choice([0, 1, 2, 5, 20, 50]),
                         rng.random() < 0.6, False if kind >= 0.3 else ("x" if kind < 0.18 else ("b" if kind < 0.25 else "z"))))
        stop = stops[k % len(stops)]
        cases.append({"id": k + 1, "plan": plan, "threads": rng.randint(1, 8), "stop": stop, "nshut": rng.randint(1, 4), "late": rng.randint(0, 3) if stop == "shutdown" else 0,
                      "wave2": rng.choice([0, 1, 3]) if r else 0, "slowdrop": rng.choice([0, 300, 1500]) if stop == "shutdown" else 0,
                      # the last proxy handle owned by a route's callback (released on the router thread when that route closes)
                      "owned": stop == "proxydrop" and k % 2 == 1,
                      # shutdown() called from inside a callback that runs on another router's thread
                      "cross": stop == "shutdown" and k % 4 == 2,
                      # the router thread is parked in a callback when shutdown() is requested; routes are offered meanwhile from 4 threads
                      "busy": 120 if (stop == "shutdown" and k % 4 == 0) else 0,
                      # the later messages are sent and the senders dropped while the router thread is parked in a callback: one batch
                      # then holds messages of some routes followed by bare closures of others
                      "park": 150 if (k % 5 == 1 and r >= 2) else 0})
    # routers that never get a route before they are stopped (then late routes are offered)
    for j, stop in enumerate([s for s in ("shutdown", "proxydrop") if s in stops]):
        cases.append({"id": n + 1 + j, "plan": [], "noroutes": True, "threads": 1, "stop": stop, "nshut": 1 + j, "late": 0, "wave2": 0, "slowdrop": 0})
    return cases


def router_line(c):
    return "id=%d plan=%s threads=%d stop=%s nshut=%d late=%d wave2=%d slowdrop=%d%s" % (
        c["id"], ";".join("%d,%d,%d,%s" % (b, a, 1 if d else 0, (x if isinstance(x, str) else "x") if x else "c") for b, a, d, x in c["plan"]) or ("none" if c.get("noroutes") else "0,0,1,c"),
        c["threads"], c["stop"], c["nshut"], c["late"], c.get("wave2", 0), c.get("slowdrop", 0), (" owned=1" if c.get("owned") else "") + (" cross=1" if c.get("cross") else "") + ((" busy=%d" % c["busy"]) if c.get("busy") else "") + ((" park=%d" % c["park"]) if c.get("park") else ""))


def router_oracle(c, rec, prop):
    if rec is None:
        return "harness produced no record (crash?)"
    if rec["panicked"]:
        return "a thread panicked while the router was %s" % ("running" if rec["stop"] == "none" else "being stopped (%s)" % rec["stop"])
    plan = c["plan"] or ([] if c.get("noroutes") else [(0, 0, True, False)])
    log = rec["log_before_stop"] + rec["log_at_return"] + rec["log_after"]
    per = {}
    for e in log:
        per.setdefault(e[1], []).append(e)
    stopped = rec["stop"] in ("shutdown", "proxydrop")
    for i, (b, a, d, x) in enumerate(plan):
        if x:
            xl = next((t for t in rec["xlog"] if t[0] == i), None)
            if xl is None:
                return "crossbeam route %d disappeared" % i
            if [m[1] for m in xl[1]] != list(range(b + a)) or any(m[0] != i for m in xl[1]):
                return "crossbeam route %d: forwarded %s instead of its %d messages in order" % (i, xl[1][:8], b + a)
            if (d or False) and not xl[2]:
                return "crossbeam route %d: consumer not disconnected although the channel closed" % i
            if stopped and not (xl[2] or dict((t[0], t[1]) for t in rec.get("xafter", [])).get(i)):
                return "crossbeam route %d: downstream consumer does not observe disconnection after the router was stopped (%s)" % (i, rec["stop"])
            continue
        evs = per.get(i, [])
        calls = [e for e in evs if e[0] == "call"]
        if any(e[0] == "badmsg" for e in evs):
            return "route %d: callback received an undecodable message" % i
        extra = 1 if (c.get("wave2", 0) and not d) else 0
        # (9999: probes sent after the stop; 7777: traffic that reaches the router in one batch with a pending shutdown request - whether
        # it is still delivered is the scheduler's choice, but it must not be delivered out of order, twice, or to a dropped callback)
        if [e[3] for e in calls if e[3] not in (9999, 7777)] != list(range(b + a + extra)) or any(e[2] != i for e in calls) or sum(1 for e in calls if e[3] == 7777) > 1:
            return "route %d: callback invoked with %s instead of its %d messages once each in order" % (i, [(e[2], e[3]) for e in calls][:8], b + a)
        drops = [k for k, e in enumerate(evs) if e[0] == "drop"]
        if len(drops) > 1:
            return "route %d: callback dropped %d times" % (i, len(drops))
        if drops and drops[0] != len(evs) - 1:
            return "route %d: callback invoked after it was dropped" % i
        if (d or stopped) and not drops:
            return "route %d: callback never dropped although %s" % (i, "its channel disconnected" if d else "the router was stopped (%s)" % rec["stop"])
        if not d and not stopped and drops:
            return "route %d: callback dropped although its channel is still connected" % i
    for j in range(c.get("wave2", 0)):
        h = 500 + j
        evs = per.get(h, [])
        if [(e[2], e[3]) for e in evs if e[0] == "call"] != [(h, 0), (h, 1)]:
            return ("route %d, registered after earlier routes had closed while others were live, got %s instead of its two messages"
                    % (h, [(e[2], e[3]) for e in evs if e[0] == "call"][:6]))
    if rec["stop"] == "shutdown":
        if not rec["stop_ok"]:
            return "shutdown() did not return (deadlock) with %d callers racing add_route" % c["nshut"]
        if any(e[0] == "call" for e in rec["log_after"]):
            return "a callback was invoked after shutdown() had returned: %s" % rec["log_after"][:4]
        ncb = sum(1 for (b, a, d, x) in plan if not x)
        for nd in rec.get("drops_at_return", []):
            if nd < ncb:
                return ("at the instant shutdown() returned only %d of %d registered callbacks had been dropped (whatever they own is still alive; "
                        "callbacks take %d us to release what they own)" % (nd, ncb, c.get("slowdrop", 0)))
        at = rec["log_before_stop"] + rec["log_at_return"]
        for i, (b, a, d, x) in enumerate(plan):
            if not x and not any(e[0] == "drop" and e[1] == i for e in at):
                return "route %d: callback not yet dropped when shutdown() returned" % i
        for h in [e[1] for e in log if e[1] >= 2000]:
            pass
        # (routes offered while a shutdown request may or may not already hold the proxy - handlers 1000.. and 3000.. - are only
        # required to be dropped exactly once: whether the registration won the race is the scheduler's choice)
        if any(e[0] == "call" and 2000 <= e[1] < 3000 for e in log):
            return "a route offered after shutdown() had returned was invoked"
        if not any(e[0] == "drop" and e[1] == 2000 for e in log):
            return "a route offered after shutdown() had returned was not dropped"
        for j in range(c["late"]):
            if sum(1 for e in log if e[0] == "drop" and e[1] == 1000 + j) != 1:
                return "a route offered while shutdown was in progress was not dropped exactly once"
        if rec.get("late_typed_disc") is False:
            return ("a typed route (route_ipc_receiver_to_new_crossbeam_receiver) offered after shutdown() had returned: its consumer was not told that the channel "
                    "is disconnected within 1.5 s (nothing will ever arrive there)")
        if c.get("busy"):
            for j in range(4):
                if sum(1 for e in log if e[0] == "drop" and e[1] == 3000 + j) != 1:
                    return ("a route offered from another thread while a shutdown request was pending (the router thread busy in a callback for %d ms) was not dropped exactly once"
                            % c["busy"])
    if rec["stop"] == "proxydrop":
        if not rec["stop_ok"]:
            return "the proxy's last handle%s was never released" % (" (owned by a route's callback, released on the router thread)" if c.get("owned") else "")
        if c.get("owned") and sum(1 for e in log if e[0] == "drop" and e[1] == 700) != 1:
            return "the callback that owned the last proxy handle was not dropped exactly once"
        if any(e[0] == "call" and e[3] == 9999 for e in log):
            return "a callback was invoked after the proxy had been dropped and the router had stopped"
    return None


def router_model_term(c, rec):
    plan = c["plan"] or ([] if c.get("noroutes") else [(0, 0, True, False)])
    pre = []
    for i, (b, a, d, x) in enumerate(plan):
        pre.append("PNewChan")
        pre += ["PSend %d %d" % (i, q) for q in range(b)]
        pre += ["PAddRoute %d %d" % (i, i), "REvWake"]
        pre += ["PSend %d %d" % (i, b + q) for q in range(a)]
        pre += ["REvMsg %d" % (i + 1)] * (a + b)
        if d:
            pre += ["PHup %d" % i, "REvClosed %d" % (i + 1)]
    nr = len(plan)
    for j in range(c.get("wave2", 0)):
        ch = nr + j
        pre += ["PNewChan", "PAddRoute %d %d" % (ch, 500 + j), "REvWake", "PSend %d 0" % ch, "PSend %d 1" % ch, "REvMsg %d" % (ch + 1), "REvMsg %d" % (ch + 1)]
    if c.get("wave2", 0):
        for i, (b, a, d, x) in enumerate(plan):
            if not d and not x:
                pre += ["PSend %d %d" % (i, b + a), "REvMsg %d" % (i + 1)]
    stopped = "false"
    if rec["stop"] == "shutdown":
        pre += ["PShutdown", "REvWake", "PAckWait"]
        stopped = "true"
    elif rec["stop"] == "proxydrop":
        if c.get("owned"):
            ch = nr + c.get("wave2", 0)
            pre += ["PNewChan", "PAddRoute %d 700" % ch, "REvWake", "PHup %d" % ch, "REvClosed %d" % (ch + 1)]
        pre += ["PProxyDrop", "REvWakeClosed"]
        stopped = "true"
    log = rec["log_before_stop"] + rec["log_at_return"] + rec["log_after"]
    obs = []
    for i, (b, a, d, x) in enumerate(plan):
        if x:
            xl = next((t for t in rec["xlog"] if t[0] == i), (i, [], False))
            after = dict((t[0], t[1]) for t in rec.get("xafter", []))
            calls, drops = [m[1] for m in xl[1]], 1 if (xl[2] or after.get(i)) else 0
        else:
            calls = [e[3] for e in log if e[0] == "call" and e[1] == i and e[3] != 9999]
            drops = sum(1 for e in log if e[0] == "drop" and e[1] == i)
        obs.append("(%d, ([%s], %d))" % (i, "; ".join(str(x) for x in calls), drops))
    return "check_router [%s] [%s] %s" % ("; ".join(pre), "; ".join(obs), stopped)


def router_check(chk, prop, stops, rule):
    thorough = chk.tier == "thorough"
    rng = random.Random(chk.seed)
    proof_ok = C.proof_stage(chk, prop)
    bins = build_all(chk, ["default", "inprocess"])
    if not all(bins.values()):
        return
    cases = gen_router_cases(rng, 1500 if thorough else 60, stops)
    chunks = [cases[i::8] for i in range(8)]

    def run(chunk, flavour="default"):
        recs, _, rc, err = C.run_harness(bins[flavour], "router", [router_line(c) for c in chunk], shim=False, timeout=300)
        by = {r["id"]: r for r in recs if r.get("kind") == "router"}
        return [(c, by.get(c["id"]), flavour) for c in chunk]
    with concurrent.futures.ThreadPoolExecutor(max_workers=8) as ex:
        items = [it for r in ex.map(run, chunks) for it in r]
    items += run(cases[:12], "inprocess")
    fails = []
    for c, rec, fl in items:
        why = router_oracle(c, rec, prop)
        if why:
            fails.append((c, rec, fl, why))
    # one route of each kind (callback, the router's own crossbeam channel, the consumer's crossbeam sender) carrying messages of very
    # different sizes - single packets next to several MiB: once each, whole, in send order, the end after the last
    if prop == "C07":
        slines = ["id=%d op=sizes sizes=%s" % (9500 + i, ",".join(str(x) for x in sz)) for i, sz in enumerate(
            [[10, 2200000, 10, 30, 1100000, 5, 300000, 10], [1100000, 8], [8, 8, 8], [500000, 1048576, 1048575, 40, 4000000, 12]])]
        for fl in ("default", "inprocess"):
            srecs, _, src, serr = C.run_harness(bins[fl], "router", slines, shim=False, timeout=300)
            sby = {r["id"]: r for r in srecs if r.get("kind") == "sizes"}
            for i, l in enumerate(slines):
                r = sby.get(9500 + i)
                why = None
                if r is None:
                    why = "the scenario did not complete: %s" % serr[-200:]
                else:
                    want = [[q, n, True] for q, n in enumerate(r["sizes"])]
                    for kind, label in (("callback", "callback route"), ("new_receiver", "route to a new crossbeam receiver"), ("own_sender", "route to the consumer's crossbeam sender")):
                        g = r[kind]
                        if g["got"] != want:
                            why = "%s: messages of sizes %s arrived as %s (seq, length, intact)" % (label, r["sizes"], g["got"][:10])
                            break
                        if kind != "callback" and not g["ended"]:
                            why = "%s: the consumer never saw the end after the senders had gone" % label
                            break
                if why:
                    fails.append((None, r, fl, why))
                    chk.failing_input("routes carrying messages of very different sizes: " + why, {"build": fl, "scenario": l, "observed": r}, key="sizes:%s:%d" % (fl, i))
        chk.coverage["mixed_size_route_scenarios"] = 2 * len(slines)
        # a callback that registers a reply route on the same proxy for every message it handles, the outer route's first messages queued
        # before it is registered: no deadlock, every message handled once and in order
        rlines = ["id=%d op=reenter n=%d" % (9600 + i, n) for i, n in enumerate((0, 1, 3, 12))]
        for fl in ("default", "inprocess"):
            rrecs, _, rrc, rerr = C.run_harness(bins[fl], "router", rlines, shim=False, timeout=120)
            rby = {r["id"]: r for r in rrecs if r.get("kind") == "reenter"}
            for i, l in enumerate(rlines):
                r = rby.get(9600 + i)
                why = None
                if r is None:
                    why = "the scenario did not complete: %s" % rerr[-200:]
                elif not r["registered"]:
                    why = "add_route never returned (watchdog 6 s): %d message(s) were queued on the channel before it was registered" % r["n"]
                elif r["outer"] != list(range(r["n"] + 1)):
                    why = "the outer route's callback saw %s instead of messages 0..%d once each in order" % (r["outer"], r["n"])
                elif r["replies"] != [100 + q for q in range(r["n"] + 1)]:
                    why = "the reply routes registered from inside the callback received %s instead of one message each (%d routes)" % (r["replies"], r["n"] + 1)
                if why:
                    fails.append((None, r, fl, why))
                    chk.failing_input("a callback that registers further routes on its own proxy: " + why, {"build": fl, "scenario": l, "observed": r}, key="reenter:%s:%d" % (fl, i))
        chk.coverage["reentrant_callback_scenarios"] = 2 * len(rlines)
    for c, rec, fl, why in [f for f in fails if f[0] is not None][:8]:
        chk.failing_input(why, {"build": fl, "scenario": router_line(c), "observed": rec and {k: rec[k] for k in ("stop_ok", "panicked", "log_at_return", "log_after")},
                                "log_before_stop": rec and rec["log_before_stop"][:30]}, key="%s:%s" % (fl, router_line(c)[:300]))
    todo = [(i, router_model_term(c, rec)) for i, (c, rec, fl) in enumerate(items) if rec is not None and fl == "default"]
    header = "From Coq Require Import List Bool.\nFrom IPC Require Import Router RouterCheck.\nImport ListNotations.\n"
    res, errors = C.coq_eval_sharded(header, todo, lambda p: "Eval vm_compute in (%d, %s)." % p, prop.lower(), shard=20)
    bad = [items[i] for i, _ in todo if res.get(i) != "true"]
    cov = chk.coverage
    cov["evaluations"] = len(items)
    cov["traces_validated_against_impl"] = len(todo)
    cov["distinct_nontrivial"] = len({router_line(c)[router_line(c).index("plan"):] for c, rec, fl in items if len(c["plan"]) > 1 and c["threads"] > 1})
    cov["correspondence_mismatches"] = len(bad)
    cov["rule"] = rule
    cov["input_distribution"] = {"stops": {s: sum(1 for c, r, f in items if c["stop"] == s) for s in stops}, "routes_total": sum(len(c["plan"]) for c, r, f in items),
                                 "crossbeam_routes": sum(1 for c, r, f in items for p in c["plan"] if p[3]),
                                 "bounded_crossbeam_routes": sum(1 for c, r, f in items for p in c["plan"] if p[3] in ("b", "z"))}
    for c, rec, fl in items[:2]:
        chk.sample({"scenario": router_line(c), "log": rec and (rec["log_before_stop"] + rec["log_at_return"] + rec["log_after"])[:20]})
    if errors:
        chk.unproved("model evaluation (coqc on generated cases) failed", errors[0][-1500:])
    if bad and not fails:
        c, rec, fl = bad[0]
        chk.unproved("correspondence RouterCheck.check_router: per-handler calls / drops / stopped flag differ from the Router LTS on %d of %d scenarios" % (len(bad), len(todo)),
                     {"scenario": router_line(c), "model_term": router_model_term(c, rec)[:2500]})
    chk.assumptions += ["the router's receiver set delivers, per member, its messages in order followed by one closure (C06); crossbeam channels are FIFO; std Mutex gives atomic proxy operations",
                        "thread scheduling is not exhibited by the model: the theorems cover every interleaving, the runs sample some"]
    finish_proof(chk, proof_ok, fails, bad)


def check_C07(chk):
    router_check(chk, "C07", ["none", "none", "shutdown"],
                 "router driver: 0..32 routes registered from 1..8 threads while 0..50 messages per route are already queued and 0..50 more are sent during registration, "
                 "senders dropped or kept, callback and crossbeam-forwarding routes (the router's unbounded channel, or the consumer's own bounded sender of capacity 0 or 1 read slowly); per-route log oracle (its messages once each in order, no foreign message, callback dropped "
                 "exactly once after its last message when the channel disconnects); per-handler projections compared with the Router LTS run on the canonical schedule; "
                 "in-process build too; non-trivial = several routes registered from several threads")


def check_C17(chk):
    router_check(chk, "C17", ["shutdown", "proxydrop", "shutdown"],
                 "router driver: routers with 0..32 live routes (callback and crossbeam) and traffic in flight, stopped by shutdown() from 1..4 threads racing with 0..3 add_route calls, "
                 "or by dropping the proxy; afterwards further sends on the old routes, a second shutdown() and a late add_route; oracle: no callback after the stop, every callback dropped "
                 "(before shutdown() returns), late routes dropped uninvoked, no panic in any thread, no deadlock (watchdog); compared with the Router LTS; "
                 "non-trivial = several routes registered from several threads")


# ------------------------------------------------------------------ C20 (async driver)
def check_C20(chk):
    thorough = chk.tier == "thorough"
    rng = random.Random(chk.seed)
    proof_ok = C.proof_stage(chk, "C20")
    bins = build_all(chk, ["async"])
    if not all(bins.values()):
        return
    cases = []
    for k in range(1000 if thorough else 40):
        n = rng.randint(1, 32)
        plan = [(rng.choice([0, 0, 1, 5, 50]), rng.choice([0, 1, 3, 20, 50]), rng.random() < 0.7) for _ in range(n)]
        if k % 5 == 4:
            # a backlog larger than any per-event budget, queued before the conversion or sent in one go afterwards, then silence
            j = rng.randrange(n)
            plan[j] = (rng.choice([0, 70, 150, 260]), rng.choice([0, 66, 140]), rng.random() < 0.7)   # at most 278 small messages fit into an unread socket
        poison = None
        if k % 4 == 3:
            cand = [i for i, (b, a, d) in enumerate(plan) if a >= 2]
            if cand:
                i = rng.choice(cand)
                poison = (i, rng.randrange(0, plan[i][1] - 1))      # at least one proper message follows the undecodable one
        cases.append({"id": k + 1, "plan": plan, "threads": rng.randint(1, 8), "poison": poison})
    lines = ["id=%d plan=%s threads=%d%s" % (c["id"], ";".join("%d,%d,%d" % (b, a, 1 if d else 0) for b, a, d in c["plan"]), c["threads"],
                                           (" poison=%d:%d" % c["poison"]) if c["poison"] else "") for c in cases]
    chunks = [list(range(len(cases)))[i::6] for i in range(6)]
    # abandoned streams: a consumer drops its stream while the sender keeps sending; other streams must not notice
    unit_lines = ["id=%d op=unit before=%d after=%d" % (9100 + i, b, a) for i, (b, a) in enumerate([(0, 1), (3, 0), (2, 5), (70, 70)])]
    probe_lines = ["id=%d op=probe k=%d probes=%d" % (9200 + i, k, p) for i, (k, p) in enumerate([(1, 1), (5, 1), (5, 3), (40, 2)])]
    stagger_lines = ["id=%d op=stagger n=%d order=%s" % (9300 + i, len(o), ",".join(str(x) for x in o)) for i, o in enumerate([[0, 1, 2], [0, 1, 2, 3, 4], [4, 3, 2, 1, 0], [2, 0, 5, 1, 4, 3]])]
    arecs, _, arc, aerr = C.run_harness(bins["async"], "async", ["id=9001 op=abandon rounds=%d k=3" % (2000 if thorough else 300),
                                                                   "id=9002 op=abandon rounds=%d k=25" % (500 if thorough else 60)] + unit_lines + probe_lines + stagger_lines, shim=False, timeout=600)
    probes = [r for r in arecs if r.get("kind") == "probe"]
    staggers = [r for r in arecs if r.get("kind") == "stagger"]
    abandon = [r for r in arecs if r.get("kind") == "abandon"]
    units = [r for r in arecs if r.get("kind") == "unit"]

    def run(idx):
        recs, _, rc, err = C.run_harness(bins["async"], "async", [lines[i] for i in idx], shim=False, timeout=900)
        return {r["id"]: r for r in recs if r.get("kind") == "async"}
    got = {}
    with concurrent.futures.ThreadPoolExecutor(max_workers=6) as ex:
        for g in ex.map(run, chunks):
            got.update(g)
    fails, todo = [], []
    for k, c in enumerate(cases):
        r = got.get(c["id"])
        why = None
        if r is None:
            why = "harness produced no record (crash?)"
        elif r["finished"] < r["streams"]:
            done = {x["stream"] for x in r["results"]}
            why = ("%d of %d streams never completed: the consuming task was not woken or the stream never ended (streams %s)"
                   % (r["streams"] - r["finished"], r["streams"], sorted(set(range(r["streams"])) - done)[:6]))
        else:
            for x in r["results"]:
                b, a, d = c["plan"][x["stream"]]
                want_bad = 1 if (c["poison"] and c["poison"][0] == x["stream"]) else 0
                if x["bad"] != want_bad:
                    why = "stream %d yielded %d undecodable items where %d were sent" % (x["stream"], x["bad"], want_bad)
                elif [m[1] for m in x["items"]] != list(range(b + a)) or any(m[0] != x["stream"] for m in x["items"]):
                    why = "stream %d yielded %s instead of its %d messages once each in order" % (x["stream"], x["items"][:8], b + a)
                elif d and not x["ended"]:
                    why = "stream %d did not end although its last sender is gone" % x["stream"]
                elif not d and x["ended"]:
                    why = "stream %d ended although a sender is still alive" % x["stream"]
                if why:
                    break
        if why:
            fails.append((c, r, why))
            continue
        pre, obs = [], []
        for i, (b, a, d) in enumerate(c["plan"]):
            pre.append("PNewChan")
            pre += ["PSend %d %d" % (i, q) for q in range(b)]
            pre += ["PToStreamEnq %d" % i, "PToStreamWake", "RSelect", "REvWake", "REndBatch", "RDrainOne", "RDrainDone"]
            pre += ["PSend %d %d" % (i, b + q) for q in range(a)]
            if d:
                pre.append("PHup %d" % i)
            if a + b or d:
                pre += ["RSelect"] + ["REvMsg %d" % (i + 1)] * (a + b) + (["REvClosed %d" % (i + 1)] if d else []) + ["REndBatch", "RDrainDone"]
            pre += ["CPoll %d" % i] * (a + b + (1 if d else 0))
        for x in r["results"]:
            obs.append("(%d, ([%s], %s))" % (x["stream"], "; ".join(str(m[1]) for m in x["items"]), "true" if x["ended"] else "false"))
        todo.append((k, "check_async [%s] [%s]" % ("; ".join(pre), "; ".join(obs))))
    for c, r, why in fails[:8]:
        chk.failing_input(why, {"scenario": lines[c["id"] - 1], "observed": r}, key=lines[c["id"] - 1][:300])
    # items whose encoding is empty: only their number travels
    if len(units) < len(unit_lines) and len(abandon) == 2:
        fails.append((None, None, "unit"))
        chk.failing_input("the empty-item stream scenario did not complete: %s" % aerr[-300:], {"scenario": "op=unit"}, key="unit:none")
    for r in units:
        tot = r["before"] + r["after"]
        if r["hang"] or r["counts"] != [tot, tot, 0]:
            fails.append((None, r, "unit"))
            chk.failing_input("streams of items whose encoding is empty ((), unit struct + PhantomData): %d sent before and %d after the conversion, sender dropped: %s"
                              % (r["before"], r["after"], "the streams never ended (watchdog)" if r["hang"] else "yielded %s / %s items (%s errors) instead of %d each"
                                 % (r["counts"][0], r["counts"][1], r["counts"][2], tot)), {"scenario": "op=unit before=%d after=%d" % (r["before"], r["after"]), "observed": r},
                              key="unit:%d:%d" % (r["before"], r["after"]))
    chk.coverage["empty_item_stream_scenarios"] = len(units)
    # a stream probed while empty (throw-away waker), then awaited by another task on another thread
    if len(probes) < len(probe_lines) and len(units) == len(unit_lines):
        fails.append((None, None, "probe"))
        chk.failing_input("the probed-stream scenario did not complete: %s" % aerr[-300:], {"scenario": "op=probe"}, key="probe:none")
    for r in probes:
        if r["hang"] or r["items"] != list(range(r["k"])) or r["early"]:
            fails.append((None, r, "probe"))
            chk.failing_input("a stream polled %d time(s) while nothing was there (a probe whose waker is thrown away) and then awaited by another task on another thread: %s"
                              % (r["probes"], "the waiting task was never woken (watchdog; %d messages were sent, then the sender dropped)" % r["k"] if r["hang"]
                                 else "yielded %s instead of its %d messages" % (r["items"], r["k"])), {"scenario": "op=probe k=%d probes=%d" % (r["k"], r["probes"]), "observed": r},
                              key="probe:%d:%d" % (r["k"], r["probes"]))
    chk.coverage["probed_stream_scenarios"] = len(probes)
    # streams that end one after the other while the others go on carrying traffic
    if len(staggers) < len(stagger_lines) and len(probes) == len(probe_lines):
        fails.append((None, None, "stagger"))
        chk.failing_input("the staggered-end scenario did not complete: %s" % aerr[-300:], {"scenario": "op=stagger"}, key="stagger:none")
    for r in staggers:
        why = None
        for k, victim in enumerate(r["order"]):
            if k >= len(r["results"]):
                why = ("stream %d (its last sender dropped in round %d, %d of %d streams still open) never ended or lost a message: no stream finished within 4 s"
                       % (victim, k + 1, r["n"] - k, r["n"]))
                break
            x = r["results"][k]
            if x["stream"] != victim or not x["ended"] or x["items"] != list(range(k + 1)):
                why = ("in round %d the sender of stream %d was dropped after one more message on every open stream; the stream that finished was %d with items %s (expected %s)"
                       % (k + 1, victim, x["stream"], x["items"], list(range(k + 1))))
                break
        if why:
            fails.append((None, r, "stagger"))
            chk.failing_input("%d streams alive at once that end in the order %s while the others keep receiving: %s" % (r["n"], r["order"], why),
                              {"scenario": "op=stagger n=%d order=%s" % (r["n"], ",".join(str(x) for x in r["order"])), "observed": r}, key="stagger:%s" % r["order"])
    chk.coverage["staggered_end_scenarios"] = len(staggers)
    if len(abandon) < 2:
        fails.append((None, None, "abandon"))
        chk.failing_input("the abandoned-stream scenario did not complete: %s" % aerr[-300:], {"scenario": "op=abandon"}, key="abandon:none")
    for r in abandon:
        if r["failures"]:
            f = r["failures"][0]
            fails.append((None, r, "abandon"))
            chk.failing_input("a stream sharing the routing thread with an abandoned stream (consumer dropped it, sender still sending) %s"
                              % ("never ended (watchdog)" if f.get("hang") else "yielded %s ended=%s instead of its %d messages and end-of-stream" % (f.get("items"), f.get("ended"), r["k"])),
                              {"scenario": "op=abandon rounds=%d k=%d" % (r["rounds"], r["k"]), "first_failures": r["failures"][:3]}, key="abandon:%d" % r["k"])
    header = "From Coq Require Import List Bool.\nFrom IPC Require Import Async AsyncCheck.\nImport ListNotations.\n"
    res, errors = C.coq_eval_sharded(header, todo, lambda p: "Eval vm_compute in (%d, %s)." % p, "c20", shard=10)
    bad = [cases[i] for i, _ in todo if res.get(i) != "true"]
    cov = chk.coverage
    cov["evaluations"] = len(cases)
    cov["streams"] = sum(len(c["plan"]) for c in cases)
    cov["traces_validated_against_impl"] = len(todo)
    cov["distinct_nontrivial"] = len({lines[c["id"] - 1][lines[c["id"] - 1].index("plan"):] for c in cases if len(c["plan"]) > 1 and c["threads"] > 1})
    cov["correspondence_mismatches"] = len(bad)
    cov["rule"] = ("async driver (feature async): 1..32 streams created from 1..8 threads with 0..50 messages queued before conversion and 0..50 sent afterwards, senders dropped "
                   "or kept, each stream consumed by futures::executor::block_on on its own thread (a lost wake-up shows as a stream that never completes: watchdog 10 s); "
                   "oracle: every message once, in order, of its own channel, end-of-stream iff the last sender is gone; yielded items and the end flag compared with the Async "
                   "LTS run on the canonical schedule; non-trivial = several streams from several threads")
    cov["input_distribution"] = {"streams_per_case": {"1": sum(1 for c in cases if len(c["plan"]) == 1), "2-10": sum(1 for c in cases if 2 <= len(c["plan"]) <= 10),
                                                      ">10": sum(1 for c in cases if len(c["plan"]) > 10)}}
    for c in cases[:2]:
        chk.sample({"scenario": lines[c["id"] - 1][:200], "results": (got.get(c["id"]) or {}).get("results", [])[:3]})
    if errors:
        chk.unproved("model evaluation (coqc on generated cases) failed", errors[0][-1500:])
    if bad and not fails:
        c = bad[0]
        chk.unproved("correspondence AsyncCheck.check_async: yielded items / end flags differ from the Async LTS on %d of %d scenarios" % (len(bad), len(todo)),
                     {"scenario": lines[c["id"] - 1], "observed": got.get(c["id"])})
    chk.assumptions += ["futures' unbounded channel is FIFO and wakes the registered waker on push and on close (assumed); executor scheduling is not exhibited by the model",
                        "the routing thread's receiver set delivers, per member, its messages in order followed by one closure (C06)"]
    finish_proof(chk, proof_ok, fails, bad)


# ------------------------------------------------------------------ C10 (timed driver)
def gen_timed(rng, n):
    """sequence of operations with, for every receive, the model op (mode, state when it looks, what happens during the wait)"""
    ops, model, expect, meta = [], [], [], []
    q, alive = [], True      # q: the queued messages, True = a message the receiver's type cannot decode
    for _ in range(n):
        r = rng.random()
        state = "QMsg" if q else ("QIdle" if alive else "QDead")
        if r < 0.25 and alive:
            L = rng.choice([10, 10, 3000, 9000])
            if rng.random() < 0.15:
                # a complete message whose encoding is shorter than the receiver's type needs: every receive variant must hand
                # out the decoding error - in particular not 'empty', and not before/after any waiting
                ops.append("x")
                q.append(True)
            else:
                ops.append("s%d" % L)
                q.append(False)
            continue
        if r < 0.3 and alive:
            ops.append("d")
            alive = False
            continue
        if r < 0.55:
            ops.append("t")
            model.append("(MNonblocking, %s, None)" % state)
            d = None
        elif r < 0.8:
            us = rng.choice([0, 300, 900, 1000, 1500, 5000, 20000, 60000, 3000000000000, (1 << 32) * 1000000, ((1 << 33) * 1000 + 5) * 1000])
            if state == "QIdle" and us > 100000:
                us = 20000  # never wait for ever on an idle channel
            ops.append("T%d" % us)
            model.append("(MTimeout %d, %s, None)" % (us, state))
            d = us
        elif r < 0.82 and state == "QIdle" and alive:
            # the timeout expires in the middle of an incoming multi-fragment message (its sender pauses 60 ms after the first fragment,
            # which arrives after 10 ms; timeout 30 ms): the message is finished and returned, not dropped half-way
            ops.append("F30000/60")
            model.append("(MTimeout 30000, QIdle, Some QMsg)")
            state = "QMsgLater"
            d = None
        elif r < 0.84 and state == "QIdle" and alive:
            # a timed wait on the idle channel cut short by a signal: an I/O error, never 'empty'
            us = rng.choice([5000, 20000, 60000, 2000000])
            ops.append("I%d" % us)
            model.append("(MTimeout %d, QIdle, None, true)" % us)
            state = "Interrupted"
            d = None
        elif r < 0.88 and state != "QIdle":
            ops.append("b")
            model.append("(MBlocking, %s, None)" % state)
            d = None
        elif r < 0.94 and state == "QIdle":
            ops.append("B25")
            model.append("(MBlocking, QMsg, None)")      # by the time it returns a message is there
            state = "QMsgLater"
            d = None
        elif state == "QIdle":
            hang = rng.random() < 0.4
            # the wait is ended by the other thread after 20 ms; requested: 2 s, or durations whose seconds sit at / just above multiples of 2^32
            # (they do not fit the poll argument: the wait is then unbounded)
            wus = rng.choice([2000000, 2000000, (1 << 32) * 1000000, ((1 << 33) * 1000 + 5) * 1000, ((1 << 32) + 3) * 1000000])
            ops.append("%s%d/20" % ("H" if hang else "W", wus))
            model.append("(MTimeout %d, QIdle, Some %s)" % (wus, "QDead" if hang else "QMsg"))
            state = "HupLater" if hang else "QMsgLater"
            d = None
        else:
            continue
        if state == "QMsg":
            expect.append("OError" if q.pop(0) else "OMsg")
        elif state == "QMsgLater":
            expect.append("OMsg")
        elif state == "HupLater":
            expect.append("ODisconnected")
            alive = False
        elif state == "QDead":
            expect.append("ODisconnected")
        elif state == "Interrupted":
            expect.append("OError")
        else:
            expect.append("OEmpty")
        meta.append({"op": ops[-1], "timeout_us": d, "state": state})
    return ops, model, expect, meta


def project_timed(calls):
    out = []
    for r in calls:
        if r["call"] == "setfl":
            out.append("CSetfl %s" % ("true" if r["nonblock"] else "false"))
        elif r["call"] == "poll":
            out.append("CPoll (%d) %s" % (r["timeout"], "true" if r["res"] > 0 else "false"))
        elif r["call"] == "recvmsg":
            pass
    return out


def timed_plain(c):
    """a timed-driver case for a build that runs without the interposer: no signal is delivered there, an `I` operation is a plain timed wait"""
    c2 = dict(c, ops=[("T%d" % min(int(o[1:]), 20000)) if o[0] == "I" else o for o in c["ops"]], expect=list(c["expect"]), meta=[dict(m) for m in c["meta"]])
    for j, m in enumerate(c2["meta"]):
        if m["state"] == "Interrupted":
            m.update(op="T%d" % min(int(m["op"][1:]), 20000), state="QIdle", timeout_us=min(int(m["op"][1:]), 20000))
            c2["expect"][j] = "OEmpty"
    return c2


def timed_slice(chk, bins, flavours, n, seed_off, what):
    """sequences mixing recv / try_recv / try_recv_timeout against senders acting before or during the call, on several builds (oracle only)"""
    rng = random.Random(chk.seed + seed_off)
    # two fixed sequences first: a blocking receive right after an 'empty' try_recv / timed receive has to wait for the message
    cases = [{"id": 1, "ops": ["t", "B25", "t", "T1500", "B25", "d"], "model": [],
              "expect": ["OEmpty", "OMsg", "OEmpty", "OEmpty", "OMsg"],
              "meta": [{"op": "t", "timeout_us": None, "state": "QIdle"}, {"op": "B25", "timeout_us": None, "state": "QMsgLater"}, {"op": "t", "timeout_us": None, "state": "QIdle"},
                       {"op": "T1500", "timeout_us": 1500, "state": "QIdle"}, {"op": "B25", "timeout_us": None, "state": "QMsgLater"}]},
             {"id": 2, "ops": ["s10", "t", "t", "B25", "T300", "B25"], "model": [],
              "expect": ["OMsg", "OEmpty", "OMsg", "OEmpty", "OMsg"],
              "meta": [{"op": "t", "timeout_us": None, "state": "QMsg"}, {"op": "t", "timeout_us": None, "state": "QIdle"}, {"op": "B25", "timeout_us": None, "state": "QMsgLater"},
                       {"op": "T300", "timeout_us": 300, "state": "QIdle"}, {"op": "B25", "timeout_us": None, "state": "QMsgLater"}]},
             # complete messages too short for the receiver's type: a decoding error each time - not 'disconnected' (senders live), not 'empty'
             {"id": 3, "ops": ["x", "t", "s10", "x", "T1500", "b", "t", "d", "t"], "model": [],
              "expect": ["OError", "OMsg", "OError", "OEmpty", "ODisconnected"],
              "meta": [{"op": "t", "timeout_us": None, "state": "QMsg"}, {"op": "T1500", "timeout_us": 1500, "state": "QMsg"}, {"op": "b", "timeout_us": None, "state": "QMsg"},
                       {"op": "t", "timeout_us": None, "state": "QIdle"}, {"op": "t", "timeout_us": None, "state": "QDead"}]}]
    while len(cases) < n:
        ops, model, expect, meta = gen_timed(rng, rng.randint(4, 12))
        if model:
            cases.append(timed_plain({"id": len(cases) + 1, "ops": ops, "model": model, "expect": expect, "meta": meta}))
    lines = ["id=%d ops=%s" % (c["id"], ",".join(c["ops"])) for c in cases]
    nf = 0
    for fl in flavours:
        recs, _, rc, err = C.run_harness(bins[fl], "timed", lines, shim=False, timeout=600)
        by = {r["id"]: r for r in recs if r.get("kind") == "timed"}
        for c in cases:
            why = timed_oracle(c, by.get(c["id"]))
            if why:
                nf += 1
                chk.failing_input("%s, %s build: %s" % (what, fl, why), {"build": fl, "sequence": ",".join(c["ops"]), "observed": by.get(c["id"]) and by[c["id"]]["results"]},
                                  key="timedslice:%s:%s" % (fl, ",".join(c["ops"])))
                break
        chk.coverage.setdefault("timed_receive_sequences", {})[fl] = len(by)
    return nf


def timed_oracle(c, rec):
    why = None
    if rec is None:
        why = "harness produced no record: a receive blocked for ever or the process died"
    else:
        for r, e, m in zip(rec["results"], c["expect"], c["meta"]):
            if m["state"] == "Interrupted" and r["out"] == "OEmpty":
                why = ("try_recv_timeout(%s us) on a connected, idle channel whose wait was cut short by a signal (poll: EINTR) reported 'empty' after only %d us: the requested "
                       "time had not passed (an I/O error is what the unchanged code reports)" % (m["op"][1:], r["us"]))
                break
            if m["op"][0] == "F" and r["out"] != "OMsg":
                why = ("try_recv_timeout(30 ms) whose timeout expired in the middle of an incoming multi-fragment message (first fragment after 10 ms, the rest 60 ms later) "
                       "returned %s after %d us instead of finishing and returning the message" % (r["out"], r["us"]))
                break
            if r["out"] != e:
                why = "operation %s returned %s where %s is required (channel state when it looked: %s)" % (r["op"], r["out"], e, m["state"])
                break
            if m["op"] == "t" and r["us"] > 200000:
                why = "try_recv took %d us" % r["us"]
                break
            if m["timeout_us"] is not None and r["out"] == "OEmpty" and r["us"] + 50 < (m["timeout_us"] // 1000) * 1000:
                why = "try_recv_timeout(%d us) reported 'empty' after only %d us" % (m["timeout_us"], r["us"])
                break
            if m["op"][0] == "F" and r["out"] != "OMsg":
                why = ("try_recv_timeout(30 ms) whose timeout expired in the middle of an incoming multi-fragment message (first fragment after 10 ms, the rest 60 ms later) "
                       "returned %s after %d us instead of finishing and returning the message" % (r["out"], r["us"]))
                break
            if m["op"][0] in "WH" and r["us"] > 1000000:
                why = "timed receive did not return early when the %s during the wait (%d us)" % ("sender went away" if m["op"][0] == "H" else "message arrived", r["us"])
                break
            if m["op"][0] == "B" and r["us"] < 15000:
                why = "a blocking recv issued after non-blocking/timed receives returned after %d us without waiting for the message" % r["us"]
                break
        if why is None and len(rec["results"]) != len(c["expect"]):
            why = "%d of %d receive operations completed" % (len(rec["results"]), len(c["expect"]))
    return why


def check_C10(chk):
    thorough = chk.tier == "thorough"
    rng = random.Random(chk.seed)
    proof_ok = C.proof_stage(chk, "C10")
    bins = build_all(chk, ["default", "inprocess"])
    if not all(bins.values()):
        return
    cases = []
    for k in range(500 if thorough else 48):
        ops, model, expect, meta = gen_timed(rng, rng.randint(4, 14))
        if not model:
            continue
        cases.append({"id": k + 1, "ops": ops, "model": model, "expect": expect, "meta": meta})
    # fixed: a drained channel without senders answers 'disconnected' to every variant and every duration - zero and sub-millisecond
    # ones included; a connected idle one 'empty'
    fixed = [(["s10", "t", "d", "T0", "T300", "T900", "T1500", "t"],
              [("t", "MNonblocking", "QMsg", None), ("T0", "MTimeout 0", "QDead", 0), ("T300", "MTimeout 300", "QDead", 300), ("T900", "MTimeout 900", "QDead", 900),
               ("T1500", "MTimeout 1500", "QDead", 1500), ("t", "MNonblocking", "QDead", None)]),
             (["T0", "T300", "t", "s10", "T0", "d", "T300"],
              [("T0", "MTimeout 0", "QIdle", 0), ("T300", "MTimeout 300", "QIdle", 300), ("t", "MNonblocking", "QIdle", None), ("T0", "MTimeout 0", "QMsg", 0),
               ("T300", "MTimeout 300", "QDead", 300)])]
    exp_of = {"QMsg": "OMsg", "QDead": "ODisconnected", "QIdle": "OEmpty"}
    for j, (ops, rs) in enumerate(fixed):
        cases.insert(j, {"id": 900 + j, "ops": ops, "model": ["(%s, %s, None)" % (m, q) for _, m, q, _ in rs], "expect": [exp_of[q] for _, _, q, _ in rs],
                         "meta": [{"op": o, "timeout_us": d, "state": q} for o, _, q, d in rs]})
    chunks = [cases[i::12] for i in range(12)]

    def run(chunk, fl="default"):
        lines = ["id=%d ops=%s" % (c["id"], ",".join(c["ops"])) for c in chunk]
        recs, trace, rc, err = C.run_harness(bins[fl], "timed", lines, env_extra={"VSHIM_SNDBUF": 4096} if fl == "default" else {}, shim=fl == "default", timeout=600)
        by = {r["id"]: r for r in recs if r.get("kind") == "timed"}
        return [(c, by.get(c["id"]), trace, fl) for c in chunk]
    with concurrent.futures.ThreadPoolExecutor(max_workers=12) as ex:
        items = [it for r in ex.map(run, chunks) for it in r]
    items += run([timed_plain(c) for c in cases[:12]], "inprocess")
    fails, todo = [], []
    for k, (c, rec, trace, fl) in enumerate(items):
        why = timed_oracle(c, rec)
        if why:
            fails.append((c, rec, fl, why))
            continue
        if fl == "inprocess" and c.get("model"):
            # no system calls to compare on this build: outcomes against Timed.inproc_run (an undecodable message is a message taken)
            mops = [(t if t.count(",") == 2 else t[:t.rindex(",")] + ")") for t in c["model"]]
            outs = ["OMsg" if (x["out"] == "OError" and e == "OError") else x["out"] for x, e in zip(rec["results"], c["expect"])]
            todo.append((k, "check_inproc_timed [%s] [%s]" % ("; ".join(mops), "; ".join(outs))))
        if fl == "default" and trace:
            seg = C.ops_between(trace, "timed %d" % c["id"], "endtimed %d" % c["id"]) or []
            # the receiver's own socket: the descriptor of the first flag/poll call, or of the first recvmsg
            main_fd = next((r["fd"] for r in seg if r["call"] in ("setfl", "poll", "recvmsg")), None)
            calls = []
            for r in seg:
                if r.get("fd") != main_fd:
                    continue
                if r["call"] == "setfl":
                    calls.append("SCall (CSetfl %s)" % ("true" if r["nonblock"] else "false"))
                elif r["call"] == "poll" and r["res"] < 0:
                    calls.append("SPollIntr (%d)" % r["timeout"])
                elif r["call"] == "poll":
                    calls.append("SCall (CPoll (%d) %s)" % (r["timeout"], "true" if r["res"] > 0 else "false"))
                elif r["call"] == "recvmsg":
                    calls.append("SCall (CRecvmsg %s)" % ("true" if calls and calls[-1] == "SCall (CSetfl true)" else "false"))
            # the model speaks about the transport: an undecodable message is a message taken from the queue; the I/O error of an
            # interrupted wait is the model's SInterrupted
            outs = [("SInterrupted" if m["state"] == "Interrupted" and x["out"] == "OError" else
                     "SOut OMsg" if (x["out"] == "OError" and e == "OError") else "SOut %s" % x["out"]) for x, e, m in zip(rec["results"], c["expect"], c["meta"])]
            mops = [t if t.count(",") == 3 else t[:-1] + ", false)" for t in c["model"]]
            todo.append((k, "check_timed_sig [%s] [%s] [%s]" % ("; ".join(mops), "; ".join(outs), "; ".join(calls))))
    for c, rec, fl, why in fails[:8]:
        chk.failing_input(why, {"build": fl, "sequence": ",".join(c["ops"]), "observed": rec and rec["results"]}, key="%s:%s" % (fl, ",".join(c["ops"])))
    # a timed receive on a connected, idle channel right after another sender process died at any point of a multi-fragment send
    # (what that sender left behind is discarded): 'empty' only after the requested time (crash driver, observer timeout_idle)
    from . import props_conc as PCN
    shapes = PCN.crash_shapes(4096)
    ccases, cid = [], itertools.count(1)
    for npk in (1, 2, 3):
        for k in range(0, 1 + (1 if npk == 1 else 3 + npk) + 2):
            ccases.append({"id": next(cid), "len": shapes[npk], "k": k, "survivor": 1, "natt": 0, "nreg": 0, "observe": "timeout_idle", "npk": npk, "S": 4096})
    # ... and timed receives (100 ms) issued while the sender is still alive: it hangs 300 ms after the first fragment and dies at its next call
    for npk in (2, 3):
        for k in range(3, 3 + npk + 1):
            for surv in (0, 1):
                ccases.append({"id": next(cid), "len": shapes[npk], "k": k, "survivor": surv, "natt": 0, "nreg": 0, "observe": "timeout_live", "npk": npk, "S": 4096})
    citems = PCN.run_crash(bins["default"], 4096, ccases)
    for it in citems:
        why = PCN.crash_oracle(it)
        if why:
            c0 = it["case"]
            fails.append((None, None, "default", why))
            chk.failing_input("timed receive after a sender process was killed before its call %d of a %d-packet send: %s" % (c0["k"], c0["npk"], why),
                              {"input": c0, "child_progress": it["child"], "observed": it["rec"]}, key="c10crash:npk=%d k=%d" % (c0["npk"], c0["k"]))
    chk.coverage["timed_receive_after_crash_scenarios"] = len(ccases)
    tbad_n, _, terrs = PCN.idle_model_eval(chk, citems, "c10t", report=not fails)
    if terrs:
        chk.unproved("model evaluation (coqc on timed receives after a crash) failed", terrs[0][-1500:])
    header = "From Coq Require Import ZArith List Bool.\nFrom IPC Require Import Timed TimedCheck.\nImport ListNotations.\nOpen Scope Z_scope.\n"
    res, errors = C.coq_eval_sharded(header, todo, lambda p: "Eval vm_compute in (%d, %s)." % p, "c10", shard=40)
    bad = [items[i] for i, _ in todo if res.get(i) != "true"]
    cov = chk.coverage
    cov["evaluations"] = len(items)
    cov["traces_validated_against_impl"] = len(todo)
    cov["distinct_nontrivial"] = len({",".join(c["ops"]) for c, r, t, f in items if any(o[0] in "TBWH" for o in c["ops"])})
    cov["correspondence_mismatches"] = len(bad)
    cov["rule"] = ("timed driver: sequences of 4..14 operations mixing recv / try_recv / try_recv_timeout(d) with d in {0, 300 us, 900 us, 1 ms, 1.5 ms, 5 ms, 20 ms, 60 ms, "
                   "> i32::MAX ms (only with something to return)} against a sender that sends (small, multi-packet, and complete messages the receiver's type cannot decode) or drops before the call, or - from another thread - "
                   "20-25 ms into a blocking or timed wait; outcomes against the state table, elapsed time (at least floor(d) ms before 'empty', early return on arrival / "
                   "hang-up, a blocking recv after an 'empty' really waits); on the OS transport the F_SETFL pairing and the poll timeout argument of every call are "
                   "compared with Timed.run; in-process build: outcomes and timing only; non-trivial = sequences with a timed or blocking receive")
    for c, rec, t, fl in items[:2]:
        chk.sample({"sequence": ",".join(c["ops"]), "results": rec and rec["results"][:8]})
    if errors:
        chk.unproved("model evaluation (coqc on generated cases) failed", errors[0][-1500:])
    if bad and not fails:
        c, rec, t, fl = bad[0]
        chk.unproved("correspondence TimedCheck.check_timed: flag / poll / recvmsg pattern differs from Timed.run on %d of %d sequences" % (len(bad), len(todo)),
                     {"sequence": ",".join(c["ops"]), "model_ops": c["model"], "term": [t2 for k2, t2 in todo if items[k2][0] is c][:1]})
    chk.assumptions += ["elapsed wall-clock time is runtime behaviour the model cannot exhibit: the theorem fixes the poll argument (floor of the duration in ms, -1 if it does not fit), "
                        "the driver measures the elapsed time as a plausibility oracle ('at least the requested time to millisecond granularity' is read as floor(d / 1 ms))",
                        "poll(2) semantics (returns early on POLLIN / hang-up) are kernel behaviour"]
    finish_proof(chk, proof_ok, fails, bad + [None] * tbad_n)


# ------------------------------------------------------------------ C05 (shm driver)
def gen_shm_script(rng, n):
    ops, live, nslots = [], [], 0
    lens = {}
    for _ in range(n):
        r = rng.random()
        if not live or (r < 0.22 and nslots < 9):
            L = rng.choice([0, 1, 100, 4096, 4097, 5000, 5000, 100])
            ops.append(("b", L))
            lens[nslots] = L
            live.append(nslots)
            nslots += 1
        elif r < 0.38 and nslots < 12:
            i = rng.choice(live)
            ops.append(("k", i))
            lens[nslots] = lens[i]
            live.append(nslots)
            nslots += 1
        elif r < 0.58 and len(live) >= 2:
            d, s_ = rng.sample(live, 2)
            # mostly sources of the destination's length (the case a 'reuse the destination' shortcut would pick)
            same = [x for x in live if x != d and lens[x] == lens[d]]
            if same and rng.random() < 0.7:
                s_ = rng.choice(same)
            ops.append(("f", d, s_))
            lens[d] = lens[s_]
        elif r < 0.68 and nslots < 12:
            i = rng.choice(live)
            ops.append(("x", i))
            lens[nslots] = lens[i]
            live.append(nslots)
            nslots += 1
        elif r < 0.78 and len(live) > 1:
            i = rng.choice(live)
            ops.append(("d", i))
            live.remove(i)
        else:
            ops.append(("r", rng.choice(live)))
    # finally every live slot is read, then dropped
    for i in list(live):
        ops.append(("r", i))
    for i in list(live):
        ops.append(("d", i))
    return ops


def shm_script_stage(chk, bins, rng, nscripts, fails):
    scripts = [gen_shm_script(rng, rng.randint(6, 22)) for _ in range(nscripts)]

    def txt(o):
        return "%s%d:%d" % (o[0], o[1], o[2]) if o[0] == "f" else "%s%d" % (o[0], o[1])
    lines = ["op=script id=%d ops=%s" % (i + 1, ",".join(txt(o) for o in sc)) for i, sc in enumerate(scripts)]
    recs, trace, rc, err = C.run_harness(bins["default"], "shm", lines, timeout=300)
    by = {r["id"]: r for r in recs if r.get("kind") == "shmscript"}
    cons = {"b": "SCreate", "k": "SClone", "d": "SDrop", "r": "SRead", "x": "SXfer"}
    todo, meta = [], []
    for i, sc in enumerate(scripts):
        r = by.get(i + 1)
        if r is None or len(r["steps"]) != len(sc):
            fails.append(("default", None, "region script %s did not complete: %s" % (lines[i], err[-200:])))
            chk.failing_input("a script of region operations did not complete (the process died?): %s" % err[-200:], {"script": lines[i]}, key="shmscript:%d" % i)
            continue
        obs = []
        # oracle, independent of the model: a read returns the slot's length and its creator's fill byte
        val, nsl, why = {}, 0, None
        for n, (o, st) in enumerate(zip(sc, r["steps"])):
            if o[0] == "b":
                val[nsl] = (o[1], nsl + 1)
                nsl += 1
            elif o[0] in ("k", "x"):
                val[nsl] = val[o[1]]
                nsl += 1
            elif o[0] == "f":
                val[o[1]] = val[o[2]]
            elif o[0] == "r" and why is None:
                L, b = val[o[1]]
                want = [L, b if L else -2]
                if st["read"] != want:
                    hist = ",".join(txt(x) for x in sc[:n + 1])
                    why = ("after the operations %s (b<len>: from_byte(slot+1, len) into a new slot, k<i>: clone, f<d>:<s>: slot d .clone_from(slot s), x<i>: sent through a channel, "
                           "d<i>: drop, r<i>: read) slot %d reads (length, common byte) = %s instead of %s" % (hist, o[1], st["read"], want))
        if why:
            fails.append(("default", None, why))
            chk.failing_input("region handles: " + why, {"script": lines[i], "observed_steps": r["steps"]}, key="shmscript:%s" % lines[i][:200])
        for n, (o, st) in enumerate(zip(sc, r["steps"])):
            seg = C.ops_between(trace, "sop %d.%d" % (i + 1, n), "endsop %d.%d" % (i + 1, n)) or []
            calls = []
            for q in seg:
                if q["call"] == "ftruncate":
                    calls.append("CFtruncate %d" % q["len"])
                elif q["call"] == "mmap" and q.get("res") == 0:
                    calls.append("CMmap %d" % q["len"])
                elif q["call"] == "dup":
                    calls.append("CDup")
                elif q["call"] == "close" and q.get("kind") == 2:
                    calls.append("CClose")
            rd = "Some (%d, %d)" % (st["read"][0], st["read"][1]) if st["read"] else "None"
            obs.append("([%s], %d, %d, %s)" % ("; ".join(calls), st["maps"], st["fds"], rd))
        ops = "; ".join(("SCloneFrom %d %d" % (o[1], o[2])) if o[0] == "f" else ("%s %d" % (cons[o[0]], o[1])) for o in sc)
        todo.append((len(todo), "check_shm [%s] [%s]" % (ops, "; ".join(obs))))
        meta.append((lines[i], r))
    header = "From Coq Require Import ZArith List Bool.\nFrom IPC Require Import Shm ShmCheck.\nImport ListNotations.\nOpen Scope Z_scope.\n"
    res, errors = C.coq_eval_sharded(header, todo, lambda p: "Eval vm_compute in (%d, %s)." % p, "c05script", shard=4)
    bad = [(t, meta[k]) for k, t in todo if res.get(k) != "true"]
    chk.coverage["region_scripts_replayed_on_model"] = len(todo) - len(bad)
    chk.coverage["traces_validated_against_impl"] = chk.coverage.get("traces_validated_against_impl", 0) + len(todo)
    if errors:
        chk.unproved("model evaluation (coqc on region scripts) failed", errors[0][-1500:])
    if bad:
        t, (line, r) = bad[0]
        # an oracle of its own for the commonest reason: a read that does not return the creator's fill byte at the slot's length
        chk.unproved("correspondence ShmCheck.check_shm: calls / live mappings and descriptors / read results of a script of region operations differ from the Shm model on %d of %d scripts"
                     % (len(bad), len(todo)), {"script": line, "observed_steps": r["steps"], "model_term": t[:3000]})
    return len(bad)


def check_C05(chk):
    thorough = chk.tier == "thorough"
    rng = random.Random(chk.seed)
    proof_ok = C.proof_stage(chk, "C05")
    bins = build_all(chk, ["default", "memfd", "inprocess"])
    if not all(bins.values()):
        return
    base = [0, 1, 2, 4095, 4096, 4097, 8191, 8192, 8193]
    # sizes around the huge-page size too (2 MiB and a little more / less): backing objects may be sized in coarser units than the region
    lens = base + [rng.randrange(0, 70000) for _ in range(10)] + ([1 << 20, 32 << 20, (32 << 20) - 1, (2 << 20) - 1, 2 << 20, (2 << 20) + 1, (4 << 20) + 4097, 2109497]
                                                                 if thorough else [1 << 20, (2 << 20) + 1, (4 << 20) + 4097])
    cases, nid = [], itertools.count(1)
    for L in lens:
        for nreg in ((1, 2, 8) if L < 100000 else (1,)):
            for clones in (0, 1, 3):
                cases.append({"id": next(nid), "len": L, "nreg": nreg, "clones": clones, "fill": (L + nreg + clones) % 2, "fork": (L + clones) % 3 == 0 and 1 or 0,
                              "pad": 0 if (nreg + clones) % 2 else 6000})
    lines = ["case id=%d len=%d nreg=%d clones=%d fill=%d fork=%d pad=%d" % (c["id"], c["len"], c["nreg"], c["clones"], c["fill"], c["fork"], c["pad"]) for c in cases]
    fails, ntr = [], 0
    per_build = {}
    for fl in ("default", "memfd", "inprocess"):
        cl = [l for l, c in zip(lines, cases) if not (fl == "inprocess" and c["fork"])]
        recs, trace, rc, err = C.run_harness(bins[fl], "shm", ["zero"] + cl, env_extra={"VSHIM_SNDBUF": 4096} if fl != "inprocess" else {}, shim=fl != "inprocess", timeout=900)
        by = {r["id"]: r for r in recs if r.get("kind") == "shmcase"}
        zero = [r for r in recs if r.get("kind") == "shm"]
        per_build[fl] = len(by)
        if fl != "inprocess" and (rc != 0 or len(zero) < 14):
            chk.failing_input("zero-length / odd-length regions: the scenario did not complete (rc=%s): %s" % (rc, err[-300:]), {"build": fl}, key="%s:zero-abort" % fl)
        for z in zero:
            if not z["ok"]:
                fails.append((fl, None, "zero/odd-length region: %s (%s)" % (z["what"], z["extra"])))
        for c in cases:
            if fl == "inprocess" and c["fork"]:
                continue
            r = by.get(c["id"])
            why = None
            if r is None:
                why = "no record (the process died?) %s" % err[-200:]
            elif not r["local_ok"]:
                why = "a region (or one of its clones) does not read back the bytes it was created from in the creating process"
            elif not r["arrived_ok"]:
                why = "regions did not arrive in order with identical contents (received lengths %s)" % r["lens"]
            elif not c["fork"] and r["lens"] != [c["len"] + i for i in range(c["nreg"])]:
                why = "received lengths %s differ from the sent ones" % r["lens"]
            elif r["maps_after"] != r["maps_before"] or r["fds_after"] != r["fds_before"]:
                why = "mappings/descriptors not released: maps %s->%s fds %s->%s" % (r["maps_before"], r["maps_after"], r["fds_before"], r["fds_after"])
            elif fl != "inprocess" and trace:
                seg = C.ops_between(trace, "shm %d" % c["id"], "endshm %d" % c["id"]) or []
                # ipc level: an empty region has no backing object at all (Shm.ipc_from_bytes [] = None)
                want = {c["len"] + i for i in range(c["nreg"])} - {0}
                ft = [q["len"] for q in seg if q["call"] == "ftruncate"]
                mm = [q["len"] for q in seg if q["call"] == "mmap"]
                ntr += 1
                if sorted(ft) != sorted(want) and fl == "default":
                    why = "backing objects sized %s instead of %s" % (sorted(ft), sorted(want))
                elif any(m not in want for m in mm):
                    why = "a mapping of %s bytes was made for regions of %s bytes (model: create/clone map the region's length, a receiver maps the fstat size)" % (
                        [m for m in mm if m not in want][:3], sorted(want))
                elif 0 in mm:
                    why = "mmap of length 0 attempted"
            if why:
                fails.append((fl, c, why))
    for fl, c, why in fails[:8]:
        chk.failing_input(why, {"build": fl, "case": c}, key="%s:%s" % (fl, c and "len=%d nreg=%d clones=%d fill=%d fork=%d pad=%d" % (c["len"], c["nreg"], c["clones"], c["fill"], c["fork"], c["pad"])))
    cov = chk.coverage
    cov["evaluations"] = sum(per_build.values())
    cov["traces_validated_against_impl"] = ntr
    cov["distinct_nontrivial"] = len({(c["len"], c["nreg"], c["clones"], c["fork"]) for c in cases if c["len"] % 4096 or c["len"] == 0})
    cov["correspondence_mismatches"] = 0
    cov["rule"] = ("shm driver: lengths 0, 1, 2, page size +-1, 2 pages +-1, random lengths below 70000, 1 MiB (thorough: 32 MiB) x 1 / 2 / 8 regions per message (region i has "
                   "length len+i and its own contents) x 0 / 1 / 3 clone generations (the originals dropped) x from_bytes / from_byte x same process / forked receiver "
                   "(sender copies and the carrying channel dropped before the child reads) x small / multi-packet carrier, on the shm_open build, the memfd build and the "
                   "in-process build; zero- and odd-length regions at platform and ipc level; ftruncate and mmap lengths in the trace must be the ones Shm.v prescribes; "
                   "non-trivial = length 0 or not a multiple of the page size")
    cov["input_distribution"] = {"per_build": per_build, "lengths": sorted(set(lens))[:30]}
    for c in cases[:3]:
        chk.sample(c)
    chk.assumptions += ["ftruncate(n) gives an object whose fstat size is exactly n and whose first n bytes are what was written through any mapping (kernel / tmpfs semantics)",
                        "memfd_create is issued as a raw system call and is invisible to the shim (that build is observed through /proc/self/fd, /proc/self/maps and mmap lengths)"]
    # scripts of region operations (create / clone / clone_from / transfer / drop / read over numbered slots) evaluated on the Shm model
    # by coqc: per step the library's calls (ftruncate, mmap, dup, close - from the trace), the live mappings and descriptors of the
    # process, and what every read returns
    sbad_n = shm_script_stage(chk, bins, rng, 60 if thorough else 16, fails)
    # regions embedded by values whose Serialize implementation itself sends values (with regions of their own) before and after: every
    # message carries exactly its own regions, in order (script driver shared with C14, model Tls)
    from . import props_codec as PC5
    scases, sgot, sfails, stodo, sbad, serrors = PC5.script_stage(chk, random.Random(chk.seed + 31), bins["default"], 800 if thorough else 80, 3, tag="c05script")
    chk.coverage["nested_send_values"] = len(scases)
    if serrors:
        chk.unproved("model evaluation (coqc on generated nested-send cases) failed", serrors[0][-1500:])
    if sbad and not sfails and not fails:
        c5, r5 = sbad[0]
        chk.unproved("correspondence TlsCheck.check_script: regions of nested / enclosing messages differ from Tls.ipc_send on %d of %d values" % (len(sbad), len(stodo)),
                     {"serializer_program": c5["body"], "kinds": c5["kinds"], "pre": c5["pre"], "observed": r5 and r5["result"]})
    fails = fails + list(sfails)
    sbad_n += len(sbad)
    # regions as first-class values inside whole-API programs (cloned, embedded next to endpoints, travelling through sets and servers,
    # carried by messages that die or cannot be decoded, read at every stage), against the Api model on the three builds
    from . import props_prog as PP
    af, ab = PP.api_stage(chk, "C05", bins, ["default", "memfd", "inprocess"], 400 if thorough else 45, 60, seed_off=41)
    fails = fails + [None] * af
    cov["correspondence_mismatches"] = sbad_n + ab
    finish_proof(chk, proof_ok, fails, [None] * (ab + sbad_n))


# ------------------------------------------------------------------ C08 (server driver)
def check_C08(chk):
    import os
    thorough = chk.tier == "thorough"
    rng = random.Random(chk.seed)
    proof_ok = C.proof_stage(chk, "C08")
    bins = build_all(chk, ["default", "inprocess"])
    if not all(bins.values()):
        return
    tmp = os.path.join(C.BUILD, "tmp", "srv-%d" % os.getpid())
    os.makedirs(tmp, exist_ok=True)
    cases, nid = [], itertools.count(1)
    for order in ("accept_first", "connect_first", "mid"):
        for client in ("thread", "fork", "spawn"):
            for _ in range(12 if thorough else 3):
                n = rng.randint(1, 20)
                sizes = [rng.choice([10, 10, 10, 300, 5000, 9000]) for _ in range(n)]
                cases.append({"id": next(nid), "order": order, "client": client, "sizes": sizes})
            if order != "connect_first" and client != "spawn":
                # a client that queues more than a socket buffer holds before the server reads: it has to wait, not to fail
                n = rng.randint(8, 14)
                cases.append({"id": next(nid), "order": order, "client": client, "sizes": [rng.choice([200, 50000, 96000, 96000]) for _ in range(n)], "big": True})
    lines = ["id=%d order=%s client=%s sizes=%s" % (c["id"], c["order"], c["client"], ",".join(str(x) for x in c["sizes"])) for c in cases]
    lines.append("id=%d op=many n=%d" % (next(nid), 200))
    # a client that connects and goes away without sending anything: accept returns an error and nothing may stay behind
    noshow = [{"id": next(nid), "order": o, "client": k} for o in ("accept_first", "connect_first") for k in ("thread", "fork")]
    nlines = ["id=%d op=noshow order=%s client=%s" % (c["id"], c["order"], c["client"]) for c in noshow]
    # created in one process, accepted (or dropped unused) in a forked child
    fork_ids = [next(nid), next(nid)]
    nlines += ["id=%d op=forkaccept unused=0" % fork_ids[0], "id=%d op=forkaccept unused=1" % fork_ids[1]]
    # dropped unused while the process's descriptor table is full
    full_id = next(nid)
    nlines.append("id=%d op=fullfd" % full_id)
    recs, trace, rc, err = C.run_harness(bins["default"], "server", lines + nlines, env_extra={"TMPDIR": tmp, "VSHIM_SNDBUF": 4096}, timeout=900)
    by = {r["id"]: r for r in recs if r.get("kind") == "server"}
    # the big-backlog cases once more with the system's own buffer sizes (single packets of up to 96000 bytes fill the client's socket)
    blines = [l for l, c in zip(lines, cases) if c.get("big")]
    bcases = [dict(c, id=c["id"] + 5000, real_buffers=True) for c in cases if c.get("big")]
    blines = ["id=%d order=%s client=%s sizes=%s" % (c["id"], c["order"], c["client"], ",".join(str(x) for x in c["sizes"])) for c in bcases]
    brecs, _, brc, berr = C.run_harness(bins["default"], "server", blines, env_extra={"TMPDIR": tmp}, timeout=900)
    by.update({r["id"]: r for r in brecs if r.get("kind") == "server"})
    err = err + berr
    cases = cases + bcases
    many = next((r for r in recs if r.get("kind") == "many"), None)
    fails, todo = [], []
    for k, c in enumerate(cases):
        r = by.get(c["id"])
        n = len(c["sizes"])
        why = None
        if r is None:
            why = "harness produced no record: %s" % err[-200:]
        elif not r["accepted"].get("ok"):
            why = "accept failed or blocked for ever: %s" % r["accepted"].get("err")
        elif r["seqs"][:1] != [0]:
            why = "accept returned message %s instead of the first message the client sent" % r["seqs"][:1]
        elif r["seqs"] != list(range(n)) or not r["intact"]:
            why = "the receiver returned by accept yielded %s instead of the client's %d messages in order (intact=%s)" % (r["seqs"], n, r["intact"])
        elif r["ended"] != "Disconnected":
            why = "after the client's last message the receiver reported %s instead of disconnection" % r["ended"]
        elif r["back_ok"] is False:
            why = "the sender embedded in the first message does not work"
        elif not r["exists_before_accept"]:
            why = "the server's name did not exist in the file system before accept"
        elif not r["accepted"].get("gone_after_accept"):
            why = "the socket file still exists after accept returned"
        elif r["tmp_after"] != r["tmp_before"]:
            why = "temporary directory left behind after accept (%d -> %d entries)" % (r["tmp_before"], r["tmp_after"])
        elif r["fds_after"] != r["fds_before"]:
            why = "descriptors left behind after the rendezvous: %d -> %d" % (r["fds_before"], r["fds_after"])
        if why:
            fails.append((c, r, why))
            continue
        mid = max(1, n // 2) if c["order"] == "mid" and c["client"] != "spawn" else n
        if c["order"] == "accept_first":
            pre = ["SNew", "CConnect 0", "CSend 0 0", "SAccept 0"] + ["CSend 0 %d" % q for q in range(1, n)] + ["CExit 0"] + ["RRecv 0"] * (n - 1)
        else:
            pre = ["SNew", "CConnect 0"] + ["CSend 0 %d" % q for q in range(mid)] + (["CExit 0"] if mid == n else []) + ["SAccept 0"] + \
                  ["CSend 0 %d" % q for q in range(mid, n)] + (["CExit 0"] if mid < n else []) + ["RRecv 0"] * (n - 1)
        todo.append((k, "check_server [%s] [%s]" % ("; ".join(pre), "; ".join(str(x) for x in r["seqs"]))))
    if many is None:
        fails.append(({"many": 200}, None, "the many-servers scenario did not complete"))
    else:
        if not many["distinct"]:
            fails.append(({"many": 200}, many, "two live servers share a name"))
        elif not many["exist"] or many["tmp_during"] != many["n"]:
            fails.append(({"many": 200}, many, "a live server's socket path / temp dir is missing"))
        elif not many["gone"] or many["tmp_after"] != many["tmp_before"] or many["fds_after"] != many["fds_before"]:
            fails.append(({"many": 200}, many, "dropping unused servers leaves file-system entries or descriptors behind"))
    nby = {r["id"]: r for r in recs if r.get("kind") == "noshow"}
    for c in noshow:
        r = nby.get(c["id"])
        if r is None:
            fails.append((dict(c, op="noshow"), None, "the scenario 'client connects and leaves without sending' did not complete: %s" % err[-200:]))
        elif r["accept"] == "hang":
            fails.append((dict(c, op="noshow"), r, "accept blocks for ever although the only client has gone away without sending"))
        elif not r["gone"] or r["tmp_after"] != r["tmp_before"]:
            fails.append((dict(c, op="noshow"), r, "socket file / temp dir left behind after accept returned (%s) for a client that never sent" % r["accept"]))
        elif r["fds_after"] != r["fds_before"]:
            fails.append((dict(c, op="noshow"), r, "descriptors left behind after accept returned (%s) for a client that never sent: %d -> %d" % (r["accept"], r["fds_before"], r["fds_after"])))
    fby = {r["id"]: r for r in recs if r.get("kind") == "forkaccept"}
    for fid in fork_ids:
        r = fby.get(fid)
        if r is None:
            fails.append(({"op": "forkaccept"}, None, "the scenario 'server created here, accepted in a forked child' did not complete: %s" % err[-200:]))
        elif r["child"] != 0:
            fails.append(({"op": "forkaccept", "unused": r["unused"]}, r, "a server created in one process and accepted in a forked child did not deliver the client's messages (child exit %s)" % r["child"]))
        elif not r["gone"] or not r["dir_gone"] or r["tmp_after"] != r["tmp_before"]:
            fails.append(({"op": "forkaccept", "unused": r["unused"]}, r, "a server created in one process and %s in a forked child leaves its socket file / temp dir behind"
                          % ("dropped unused" if r["unused"] else "accepted")))
    # one-shot servers inside whole-API programs (first messages carrying endpoints and regions, accept of a departed client, servers
    # dropped unused) against the model Api.v - the tie of the C08_api theorems - on both builds
    from . import props_prog as PP8
    af8, ab8 = PP8.api_stage(chk, "C08", bins, ["default", "inprocess"], 300 if thorough else 30, 60, seed_off=83)
    fr = next((r for r in recs if r.get("kind") == "fullfd"), None)
    if fr is None:
        fails.append(({"op": "fullfd"}, None, "the scenario 'server dropped while the descriptor table is full' did not complete: %s" % err[-200:]))
    elif not fr["gone"] or not fr["dir_gone"] or fr["tmp_after"] != fr["tmp_before"]:
        fails.append(({"op": "fullfd"}, fr, "a one-shot server dropped (unused) while the process's descriptor table was full (%d descriptors opened to fill it) leaves its socket file / "
                      "temporary directory behind" % fr["filled"]))
    # long temporary directories: the socket path has to fit into sockaddr_un (108 bytes); whatever the library does with a name that
    # comes close to the limit, the name it hands out must lead a client to this server, in order, and nothing may stay behind
    long_n = 0
    for L in (60, 80, 89, 90, 92, 94):
        base = os.path.join(C.BUILD, "tmp", "long-%d-%d" % (os.getpid(), L))
        ldir = base + "/" + "d" * (L - len(base) - 1)
        if len(ldir) != L:
            continue
        os.makedirs(ldir, exist_ok=True)
        llines = ["id=%d order=%s client=%s sizes=10,300,10" % (7000 + i, o, k) for i, (o, k) in enumerate((("accept_first", "thread"), ("connect_first", "fork"), ("mid", "spawn")))]
        lrecs, _, _, lerr = C.run_harness(bins["default"], "server", llines, env_extra={"TMPDIR": ldir}, shim=False, timeout=120)
        lby = {r["id"]: r for r in lrecs if r.get("kind") == "server"}
        for i, l in enumerate(llines):
            r = lby.get(7000 + i)
            why = None
            if r is None:
                why = "no result (the harness died or the rendezvous blocked): %s" % lerr[-200:]
            elif not r["accepted"].get("ok"):
                why = "accept failed or blocked for ever: %s" % r["accepted"].get("err")
            elif r["seqs"] != [0, 1, 2] or not r["intact"] or r["ended"] != "Disconnected":
                why = "the receiver returned by accept yielded %s (intact=%s), then %s" % (r["seqs"], r["intact"], r["ended"])
            if why:
                fails.append(({"tmpdir_length": L, "scenario": l}, r, "temporary directory whose path is %d bytes long: %s" % (L, why)))
        left = os.listdir(ldir)
        if left and not any("tmpdir_length" in (f[0] or {}) for f in fails):
            fails.append(({"tmpdir_length": L}, None, "temporary directory whose path is %d bytes long: %s left behind after every server was accepted and dropped" % (L, left[:3])))
        long_n += len(llines)
        import shutil
        shutil.rmtree(base, ignore_errors=True)
    chk.coverage["long_tmpdir_scenarios"] = long_n
    # in-process transport: same scenarios with a thread client
    ilines = [l for l, c in zip(lines, cases) if c["client"] == "thread"] + [l for l, c in zip(nlines, noshow) if c["client"] == "thread"]
    irecs, _, _, ierr = C.run_harness(bins["inprocess"], "server", ilines, shim=False, timeout=300)
    for r in irecs:
        if r.get("kind") == "noshow" and r["accept"] == "hang":
            fails.append(({"op": "noshow", "build": "inprocess", "order": r["order"]}, r, "in-process transport: accept blocks for ever although the only client has gone away without sending"))
    for r in irecs:
        if r.get("kind") == "server":
            c = next(x for x in cases if x["id"] == r["id"])
            if not r["accepted"].get("ok") or r["seqs"] != list(range(len(c["sizes"]))) or r["ended"] != "Disconnected":
                fails.append((dict(c, build="inprocess"), r, "in-process transport: accept/receive gave %s ended=%s" % (r["seqs"], r["ended"])))
    # in-process build: replay on the InprocSrv LTS (registry of server records, accept() statement by statement) along the
    # canonical schedule of the scenario
    itodo = []
    acc = "IAcc1; IAcc2; IAcc3; IAcc4; IAcc5"
    for r in irecs:
        if r.get("kind") == "server" and r["accepted"].get("ok"):
            c = next(x for x in cases if x["id"] == r["id"])
            n = len(c["sizes"])
            mid = max(1, n // 2) if c["order"] == "mid" else n
            if c["order"] == "accept_first":
                pre = ["INew", "IAcc1", "IConnect", "IAcc2", "IAcc3", "IAcc4", "ISend 0", "IAcc5"] + ["ISend %d" % q for q in range(1, n)] + ["IDropTx"]
            else:
                pre = ["INew", "IConnect"] + ["ISend %d" % q for q in range(mid)] + (["IDropTx"] if mid == n else []) + acc.split("; ") + \
                      ["ISend %d" % q for q in range(mid, n)] + (["IDropTx"] if mid < n else [])
            pre += ["IRecv"] * n
            itodo.append((len(itodo), "check_isrv [%s] true [%s] %s" % ("; ".join(pre), "; ".join(str(x) for x in r["seqs"]), "true" if r["ended"] == "Disconnected" else "false"), r))
        elif r.get("kind") == "noshow" and r["accept"] != "hang":
            pre = (["INew", "IAcc1", "IConnect", "IDropTx", "IAcc2", "IAcc3", "IAcc4", "IAcc5"] if r["order"] == "accept_first"
                   else ["INew", "IConnect", "IDropTx"] + acc.split("; "))
            itodo.append((len(itodo), "check_isrv [%s] %s [] false" % ("; ".join(pre), "true" if r["accept"].startswith("Ok") else "false"), r))
    iheader = "From Coq Require Import List Bool.\nFrom IPC Require Import InprocSrv InprocSrvCheck.\nImport ListNotations.\n"
    ires, ierrors = C.coq_eval_sharded(iheader, [(i, t) for i, t, _ in itodo], lambda p: "Eval vm_compute in (%d, %s)." % p, "c08inproc", shard=40)
    ibad = [r for i, t, r in itodo if ires.get(i) != "true"]
    chk.coverage["inproc_server_scenarios_replayed"] = len(itodo)
    if ierrors:
        chk.unproved("model evaluation (coqc on generated in-process server cases) failed", ierrors[0][-1500:])
    for c, r, why in fails[:8]:
        chk.failing_input(why, {"scenario": c, "observed": r}, key=str(c)[:300])
    if ibad and not fails:
        chk.unproved("correspondence InprocSrvCheck.check_isrv: the in-process build's accept / receive results differ from the InprocSrv LTS on %d of %d scenarios" % (len(ibad), len(itodo)),
                     {"observed": ibad[0]})
    header = "From Coq Require Import List Bool.\nFrom IPC Require Import Server ServerCheck.\nImport ListNotations.\n"
    res, errors = C.coq_eval_sharded(header, todo, lambda p: "Eval vm_compute in (%d, %s)." % p, "c08", shard=40)
    bad = [cases[i] for i, _ in todo if res.get(i) != "true"]
    # close-on-exec and the listen backlog straight from the trace
    listens = [r for r in trace if r["call"] == "listen"]
    C.scan_cloexec(chk, trace, "server driver", "a program exec'd while a one-shot server exists would keep its listening socket (or the accepted connection) open after accept returned or the server was dropped")
    cov = chk.coverage
    cov["evaluations"] = len(cases) + 1 + len(ilines)
    cov["traces_validated_against_impl"] = len(todo)
    cov["distinct_nontrivial"] = len({(c["order"], c["client"], len(c["sizes"])) for c in cases if len(c["sizes"]) > 1})
    cov["correspondence_mismatches"] = len(bad) + len(ibad)
    cov["listen_backlog_seen"] = sorted({r.get("backlog") for r in listens})
    cov["rule"] = ("server driver: orders {accept first, client connects + sends everything + exits before accept, accept in the middle of the client's messages} x client as thread, "
                   "forked child, spawned process x 1..20 messages of mixed single/multi-packet sizes with an embedded sender in the first; 200 servers alive at once (distinct names, "
                   "clean drop); clients that connect and never send; after accept: socket file, temp dir and descriptors gone; the receiver's message sequence compared with the Server LTS; "
                   "in-process build: same scenarios with a thread client, replayed on the InprocSrv LTS; "
                   "non-trivial = more than one message")
    for c in cases[:2]:
        chk.sample({"scenario": c, "observed": by.get(c["id"]) and {k: by[c["id"]][k] for k in ("seqs", "ended")}})
    if errors:
        chk.unproved("model evaluation (coqc on generated cases) failed", errors[0][-1500:])
    if bad and not fails:
        chk.unproved("correspondence ServerCheck.check_server differs on %d of %d scenarios" % (len(bad), len(todo)), {"scenario": bad[0]})
    chk.assumptions += ["tempfile's names are unique (assumed); bind/listen/connect/accept semantics and SO_LINGER are kernel behaviour; socket paths of 108 bytes or more are outside the precondition"]
    finish_proof(chk, proof_ok, fails + [None] * af8, bad + [None] * ab8)
