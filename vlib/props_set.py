"""Checks for C06 (rset driver)."""
import concurrent.futures
import itertools
import random

from . import common as C
from . import frag as F
from .props_frag import build_all, finish_proof

EPOLLET = 1 << 31


def gen_plan(rng, m, S, maxmsgs=4):
    cap, f = F.ffs(S), F.fs(S)
    sizes = [40, 64, 900, cap, cap + 1, cap + f + 100]
    plans = []
    for _ in range(m):
        k = rng.randint(0, maxmsgs)
        plans.append(([rng.choice(sizes) if rng.random() < 0.3 else 40 for _ in range(k)], rng.random() < 0.8))
    if not any(h for _, h in plans) and not any(l for l, _ in plans):
        plans[0] = ([40], True)
    return plans


def plan_str(plans):
    return ";".join("%s:%s" % (",".join(str(x) for x in l), "h" if h else "k") for l, h in plans)


def rset_oracle(it):
    c, rec = it["case"], it["rec"]
    if rec is None:
        return "harness died: %s" % it["stderr"][-300:]
    if rec["hang"]:
        return "select went on blocking although messages or closures were pending (watchdog)"
    ids = rec["ids"]
    if len(set(ids)) != len(ids):
        return "two members of the set share an id: %s" % ids
    member_of = {rid: i for i, rid in enumerate(ids)}
    per = {}
    for b in rec["batches"]:
        for e in b:
            if e[0] == "ERR":
                return "select failed: %s" % e[1]
            per.setdefault(e[0], []).append(e)
    for i, (lens, h) in enumerate(c["plans"]):
        evs = per.get(ids[i], [])
        msgs = [e for e in evs if e[1] == "M"]
        closed = [k for k, e in enumerate(evs) if e[1] == "C"]
        for k, e in enumerate(msgs):
            if not e[5] or e[2] != i or e[3] != k:
                return ("member %d (id %s): event %d is not its message number %d intact (got sender %s seq %s intact=%s)"
                        % (i, ids[i], k, k, e[2], e[3], e[5]))
        if len(msgs) != len(lens):
            return "member %d (id %s): %d of %d messages reported" % (i, ids[i], len(msgs), len(lens))
        if h:
            if len(closed) != 1:
                return "member %d (id %s): %d closed events instead of exactly one" % (i, ids[i], len(closed))
            if closed[0] != len(evs) - 1:
                return "member %d (id %s): closed event reported before its last message" % (i, ids[i])
        elif closed:
            return "member %d (id %s): reported closed although a sender is still alive" % (i, ids[i])
    for rid in per:
        if rid not in member_of:
            return "event tagged with id %s which no add() returned" % rid
    return None


def discipline(it, trace):
    """the library's side of the LTS read off the selecting thread's system calls"""
    c = it["case"]
    start = next((r for r in trace if r["call"] == "mark" and r.get("label") == "rset %d" % c["id"]), None)
    end = next((r for r in trace if r["call"] == "mark" and r.get("label") == "endrset %d" % c["id"]), None)
    if start is None or end is None:
        return None, 0
    calls = [r for r in trace if start["seq"] < r["seq"] < end["seq"] and r["call"] in ("epoll_wait", "recvmsg")]
    tids = {r["tid"] for r in calls if r["call"] == "epoll_wait"}
    calls = [r for r in calls if r["tid"] in tids]
    n = 0
    i = 0
    while i < len(calls):
        r = calls[i]
        if r["call"] != "epoll_wait":
            return "a receive outside a batch: %s" % r, n
        if r["max"] != 10 or r["timeout"] != -1:
            return "epoll_wait called with max=%s timeout=%s" % (r["max"], r["timeout"]), n
        n += 1
        j = i + 1
        if r["res"] <= 0:
            if j < len(calls) and calls[j]["call"] != "epoll_wait":
                return "after an interrupted/empty wait the library did something else than waiting again: %s" % calls[j], n
            i = j
            continue
        last = {}
        order = []
        while j < len(calls) and calls[j]["call"] == "recvmsg":
            fd = calls[j]["fd"]
            if fd not in last:
                order.append(fd)
            last[fd] = calls[j]
            j += 1
        if len(order) != r["res"]:
            return "epoll_wait returned %d ready members but %d were drained" % (r["res"], len(order)), n
        for fd, q in last.items():
            if not (q["res"] == 0 or (q["res"] == -1 and q.get("errno") == 11)):
                return "member fd %d was not drained to EWOULDBLOCK or closure (last read returned %s errno %s)" % (fd, q["res"], q.get("errno")), n
        i = j
    adds = [r for r in trace if r["call"] == "epoll_ctl" and r.get("op") == 1 and start["seq"] - 5000 < r["seq"] < end["seq"]]
    for r in adds:
        if not (r["events"] & EPOLLET):
            return "a member was registered level-triggered (events=%s)" % r["events"], n
    return None, n


def model_term(it):
    c, rec = it["case"], it["rec"]
    m = len(c["plans"])
    pre = ["LNewChan"] * m
    for i, (lens, h) in enumerate(c["plans"]):
        pre += ["LSend %d %d" % (i, k) for k in range(len(lens))]
        if h:
            pre.append("LHup %d" % i)
    pre += ["LAdd %d" % i for i in range(m)]
    obs = []
    for b in rec["batches"]:
        for e in b:
            obs.append("EvMsg %d %d" % (e[0], e[3]) if e[1] == "M" else "EvClosed %d" % e[0])
    return "check_rset [%s] %d [%s]" % ("; ".join(pre), len(rec["batches"]), "; ".join(obs))


def check_C06(chk):
    thorough = chk.tier == "thorough"
    rng = random.Random(chk.seed)
    proof_ok = C.proof_stage(chk, "C06")
    bins = build_all(chk, ["default", "inprocess"])
    if not all(bins.values()):
        return
    S = 4096
    nid = itertools.count(1)
    cases = []
    n = 1500 if thorough else 60
    for k in range(n):
        m = rng.choice([1, 2, 5, 9, 10, 11, 12, 25, 40, 64]) if k % 2 else rng.randint(1, 64)
        mode = ["after", "before", "during"][k % 3]
        cases.append({"id": next(nid), "plans": gen_plan(rng, m, S), "mode": mode, "threads": 1 if mode == "after" else rng.randint(1, 8),
                      "eintr": 3 if k % 4 == 0 else 0})

    def run(chunk, binp=None, shim=True):
        lines = ["id=%d plan=%s mode=%s threads=%d eintr=%d" % (c["id"], plan_str(c["plans"]), c["mode"], c["threads"], c["eintr"]) for c in chunk]
        recs, trace, rc, err = C.run_harness(binp or bins["default"], "rset", lines, env_extra={"VSHIM_SNDBUF": S}, shim=shim, timeout=900)
        by = {r["id"]: r for r in recs if r.get("kind") == "rset"}
        aborted = any(r.get("kind") == "aborted" for r in recs)
        return [{"case": c, "rec": by.get(c["id"]), "stderr": err if c["id"] not in by else "", "trace": trace} for c in chunk
                if c["id"] in by or not aborted]
    chunks = [cases[i::8] for i in range(8)]
    with concurrent.futures.ThreadPoolExecutor(max_workers=8) as ex:
        items = [it for r in ex.map(run, chunks) for it in r]
    # in-process transport: oracle only (one event per select by design)
    inp = [dict(c, id=next(nid)) for c in cases[:20]]
    for c in inp:
        c["eintr"] = 0
    iitems = run(inp, bins["inprocess"], False)
    fails, waits = [], 0
    for it in items + iitems:
        why = rset_oracle(it)
        if why is None and it in items and it["trace"]:
            why, nw = discipline(it, it["trace"])
            waits += nw
        if why:
            fails.append((it, why))
    for it, why in fails[:8]:
        c = it["case"]
        chk.failing_input(why, {"members": len(c["plans"]), "plan": plan_str(c["plans"]), "mode": c["mode"], "threads": c["threads"], "eintr_every": c["eintr"],
                                "observed_batches": (it["rec"] or {}).get("batches", [])[:6]},
                          key="plan=%s mode=%s threads=%d eintr=%d" % (plan_str(c["plans"])[:200], c["mode"], c["threads"], c["eintr"]))
    seq_items = [it for it in items if it["case"]["mode"] == "after" and it["rec"] and not it["rec"]["hang"]]
    todo = [(i, model_term(it)) for i, it in enumerate(seq_items)]
    header = "From Coq Require Import List Bool.\nFrom IPC Require Import RSet RSetCheck.\nImport ListNotations.\n"
    res, errors = C.coq_eval_sharded(header, todo, lambda p: "Eval vm_compute in (%d, %s)." % p, "c06", shard=20)
    bad = [seq_items[i] for i, _ in todo if res.get(i) != "true"]
    cov = chk.coverage
    cov["evaluations"] = len(items) + len(iitems)
    cov["traces_validated_against_impl"] = len(todo)
    cov["waits_checked_for_discipline"] = waits
    cov["distinct_nontrivial"] = len({plan_str(it["case"]["plans"]) + it["case"]["mode"] for it in items if len(it["case"]["plans"]) > 10 or it["case"]["mode"] != "after"})
    cov["correspondence_mismatches"] = len(bad)
    cov["rule"] = ("rset driver: sets of 1..64 members (more than the batch capacity of 10 ready at once), 0..4 messages per member of mixed single/multi-packet sizes, "
                   "senders dropped or kept, 1..8 sender threads, members added before, during and after the traffic, EINTR injected into every 3rd wait; per-member "
                   "event oracle (messages in order, intact, tagged with the member's id, exactly one closure at the end, distinct ids); the selecting thread's system "
                   "calls must follow the edge-trigger discipline (every batch entry drained to EWOULDBLOCK or closure, wait again after EINTR, capacity 10, EPOLLET); "
                   "the sequential scenarios are replayed on the RSet LTS and the exact event order compared; in-process build: oracle only; "
                   "non-trivial = more than 10 members or concurrent traffic")
    cov["input_distribution"] = {"modes": {m: sum(1 for it in items if it["case"]["mode"] == m) for m in ("after", "before", "during")},
                                 "members": {"<=10": sum(1 for it in items if len(it["case"]["plans"]) <= 10), ">10": sum(1 for it in items if len(it["case"]["plans"]) > 10)},
                                 "with_eintr": sum(1 for it in items if it["case"]["eintr"])}
    for it in seq_items[:2]:
        chk.sample({"plan": plan_str(it["case"]["plans"])[:200], "mode": it["case"]["mode"], "batches": it["rec"]["batches"][:3]})
    if errors:
        chk.unproved("model evaluation (coqc on generated cases) failed", errors[0][-1500:])
    if bad and not fails:
        it = bad[0]
        chk.unproved("correspondence RSetCheck.check_rset: event order of a sequential scenario differs from the RSet LTS on %d of %d scenarios" % (len(bad), len(todo)),
                     {"plan": plan_str(it["case"]["plans"]), "observed_batches": it["rec"]["batches"], "model_term": model_term(it)[:2000]})
    chk.assumptions += ["edge-triggered epoll semantics (ready list, re-arming on arrival and hang-up, EPOLL_CTL_DEL) are kernel behaviour: modelled in RSet.v, validated by "
                        "the runs with more than 10 ready members and adds while readable",
                        "real thread scheduling is not exhibited by the model: the theorems cover every interleaving, the concurrent runs sample some"]
    finish_proof(chk, proof_ok, fails, bad)
