"""Checks for C02 (conc driver) and C12 (crash driver)."""
import concurrent.futures
import itertools
import random

from . import common as C
from . import frag as F
from .props_frag import build_all, finish_proof


# ------------------------------------------------------------------ C02
def size_classes(S):
    cap, f = F.ffs(S), F.fs(S)
    return {"s": 64, "t": 900, "c": cap, "d": cap + 1, "m": cap + f + 500, "l": cap + 4 * f + 100}


def gen_conc_cases(rng, n, S, big=False):
    cls = size_classes(S)
    keys = list(cls)
    cases = []
    modes = ["eager", "delayed", "poll", "set", "timeout"]
    for i in range(n):
        ns = rng.randint(1, 8)
        plans = []
        for _ in range(ns):
            k = rng.randint(1, 6)
            plans.append([cls[rng.choice(keys)] + rng.randint(0, 3) * 0 for _ in range(k)])
        late = 1 if i % 4 == 1 else 0
        if late:
            # nobody reads while the senders run: keep what is in flight well below the socket buffers
            plans = [[min(x, cls["m"]) for x in p[:3]] for p in plans[:3]]
        cases.append({"id": i + 1, "plans": plans, "mode": modes[i % 5], "procs": 1 if i % 7 == 3 else 0, "late": late,
                      "delay_us": rng.choice([0, 0, 100, 400]) if i % 3 else 0, "S": S,
                      # every sixth run: the kernel transiently refuses some transmission attempts of every send (ENOBUFS)
                      "faults": rng.choice(["01", "001", "0101", "011", "1"]) if i % 6 == 2 else "",
                      # every third run: the handle the senders are cloned from has carried a multi-packet message before (what a handle
                      # keeps from one send to the next would then be shared by all the clones)
                      "warm": cls["l"] if (i % 3 == 0 and "l" in cls) else (max(cls.values()) if i % 3 == 0 else 0)})
    return cases


def run_conc(binp, S, cases, Sreal=None):
    lines = ["id=%d msgs=%s mode=%s procs=%d delay_us=%d late=%d%s" % (
        c["id"], ";".join(",".join(str(x) for x in p) for p in c["plans"]), c["mode"], c["procs"], c["delay_us"], c.get("late", 0),
        ((" faults=" + c["faults"]) if c.get("faults") else "") + ((" warm=%d" % c["warm"]) if c.get("warm") else "")) for c in cases]
    env = {"VSHIM_SNDBUF": S} if S else {}
    recs, trace, rc, err = C.run_harness(binp, "conc", lines, env_extra=env, timeout=900)
    by = {r["id"]: r for r in recs if r.get("kind") == "conc"}
    aborted = any(r.get("kind") == "aborted" for r in recs)
    out = []
    for c in cases:
        if c["id"] not in by and aborted:
            continue
        out.append({"case": c, "rec": by.get(c["id"]), "trace": trace, "stderr": err if c["id"] not in by else ""})
    return out


def conc_oracle(it):
    """C02 evaluated on the receiver's log: exactly once, whole, per-sender order, happened-before"""
    c, rec = it["case"], it["rec"]
    if rec is None:
        return "harness died: %s" % it["stderr"][-300:]
    if "hang" in rec["errors"]:
        return "receiver did not obtain all messages within the watchdog period (got %d of %d)" % (len(rec["got"]), rec["expected"])
    if rec["errors"]:
        return "receiver error: %s" % rec["errors"]
    got = rec["got"]
    seen = {}
    for pos, (s, q, l, ok, t) in enumerate(got):
        if not ok:
            return "a delivered payload is not one whole message as sent (sender %s seq %s announced len %s)" % (s, q, l)
        if (s, q) in seen:
            return "message (sender %d, seq %d) delivered twice" % (s, q)
        seen[(s, q)] = pos
    sent_ok = {(s, q) for (s, q, t0, t1, ok) in rec["stamps"] if ok}
    for (s, q) in sent_ok:
        if (s, q) not in seen:
            return "message (sender %d, seq %d) was sent successfully but never delivered" % (s, q)
    for (s, q) in seen:
        if s >= len(c["plans"]) or q >= len(c["plans"][s]) or max(c["plans"][s][q], 32) != got[seen[(s, q)]][2]:
            return "delivered message (sender %d, seq %d) has the wrong length" % (s, q)
    # happened-before: send a returned before send b began => a delivered first
    st = [(s, q, t0, t1) for (s, q, t0, t1, ok) in rec["stamps"] if ok]
    for a in st:
        for b in st:
            if a[3] < b[2] and seen[(a[0], a[1])] > seen[(b[0], b[1])]:
                return ("send of (sender %d, seq %d) returned before send of (sender %d, seq %d) began, but it was delivered later"
                        % (a[0], a[1], b[0], b[1]))
    if not rec["closed"]:
        return "receiver never saw the channel close after all senders had gone"
    return None


def conc_trace_items(it):
    """one frag-style item per send() of a threaded run: the per-send call sequence must be the one Frag prescribes"""
    c, rec, trace = it["case"], it["rec"], it["trace"]
    items = []
    if rec is None or not trace:
        return items
    for s, plan in enumerate(c["plans"]):
        for q, L in enumerate(plan):
            so = C.ops_between(trace, "send %d.%d.%d" % (c["id"], s, q), "endsend %d.%d.%d" % (c["id"], s, q))
            if so is None:
                continue
            ok = next((o for (s2, q2, t0, t1, o) in rec["stamps"] if (s2, q2) == (s, q)), True)
            items.append({"case": {"id": 0, "len": max(L, 32), "S": c["S"], "level": "platform", "faults": c.get("faults", "")},
                          "rec": {"send": "Ok" if ok else "Err(105)"}, "send_obs": F.project_send(so), "recv_obs": None})
    return items


def check_C02(chk):
    thorough = chk.tier == "thorough"
    rng = random.Random(chk.seed)
    proof_ok = C.proof_stage(chk, "C02")
    bins = build_all(chk, ["default", "inprocess"])
    if not all(bins.values()):
        return
    n = 250 if thorough else 40
    jobs = []
    for S in (4096, 8192, 16384):
        jobs.append((S, gen_conc_cases(rng, n, S)))
    big = gen_conc_cases(rng, n // 3 + 2, F.DEFAULT_S)
    for c in big:
        c["plans"] = [p[:3] for p in c["plans"][:4]]
        c["late"] = 0
    jobs.append((None, big))
    # bursts: many small messages pending on one channel before the receiver looks at it (default buffers; every observer)
    bursts = []
    for i in range(60 if thorough else 10):
        ns = rng.randint(1, 3)
        total = rng.choice([66, 70, 100, 129, 150, 180])    # all senders share ONE channel and nobody reads meanwhile: stay below what its buffer holds
        bursts.append({"id": 100000 + i, "plans": [[64] * (total // ns) for _ in range(ns)],
                       "mode": ["set", "eager", "poll", "timeout", "set"][i % 5], "procs": 0, "late": 1 if i % 3 != 2 else 0, "delay_us": 0, "S": F.DEFAULT_S})
    jobs.append((None, bursts))
    with concurrent.futures.ThreadPoolExecutor(max_workers=8) as ex:
        results = list(ex.map(lambda j: run_conc(bins["default"], j[0], j[1]), jobs))
    # in-process transport: same oracle, no system calls to trace
    inproc = gen_conc_cases(rng, n // 2 + 2, 4096)
    for c in inproc:
        c["procs"] = 0
    lines = ["id=%d msgs=%s mode=%s procs=0 delay_us=0 late=%d" % (c["id"], ";".join(",".join(str(x) for x in p) for p in c["plans"]),
                                                                 c["mode"] if c["mode"] != "set" else "eager", c.get("late", 0)) for c in inproc]
    recs, _, rc, err = C.run_harness(bins["inprocess"], "conc", lines, shim=False, timeout=600)
    by = {r["id"]: r for r in recs if r.get("kind") == "conc"}
    results.append([{"case": dict(c, flavour="inprocess"), "rec": by.get(c["id"]), "trace": None, "stderr": err} for c in inproc])
    items = [it for r in results for it in r]
    fails = []
    for it in items:
        why = conc_oracle(it)
        if why:
            fails.append((it, why))
    for it, why in fails[:8]:
        c = it["case"]
        key = "S=%s plans=%s mode=%s procs=%s delay_us=%s" % (c["S"], c["plans"], c["mode"], c["procs"], c["delay_us"])
        chk.failing_input(why, {"input": c, "observed": {k: v for k, v in (it["rec"] or {}).items() if k in ("got", "errors", "closed", "expected")}}, key=key)
    sends = [s for it in items for s in conc_trace_items(it)]
    # several channels observed through the public IpcReceiverSet, many messages of each pending when select looks (batches with dozens of
    # results of 2..6 channels, the channels becoming ready in the opposite order of their ids): each channel's messages in send order
    from . import props_set as PS
    scases = []
    for i in range(40 if thorough else 8):
        m = rng.randint(2, 6)
        scases.append({"id": 200000 + i, "plans": [([40] * rng.randint(8, 40), True) for _ in range(m)], "late": [False] * m, "mode": ["after", "before"][i % 2],
                       "threads": 1 if i % 2 == 0 else rng.randint(1, 3), "rev": i % 3 != 2})
    slines = ["id=%d plan=%s mode=%s threads=%d eintr=0 level=ipc%s" % (c["id"], PS.plan_str(c["plans"]), c["mode"], c["threads"], " rev=1" if c["rev"] else "") for c in scases]
    for fl in ("default", "inprocess"):
        srecs, _, src, serr = C.run_harness(bins[fl], "rset", slines, shim=False, timeout=300)
        sby = {r["id"]: r for r in srecs if r.get("kind") == "rset"}
        for c in scases:
            why = PS.rset_oracle({"case": c, "rec": sby.get(c["id"]), "stderr": serr})
            if why:
                fails.append(({"case": c}, why))
                chk.failing_input("channels observed through an IpcReceiverSet: " + why, {"build": fl, "plan": PS.plan_str(c["plans"]), "mode": c["mode"], "reversed_readiness": c["rev"],
                                                                                          "observed_batches": (sby.get(c["id"]) or {}).get("batches", [])[:3]},
                                  key="c02set:%s:%s:%s" % (fl, PS.plan_str(c["plans"])[:150], c["mode"]))
        chk.coverage.setdefault("receiver_set_order_scenarios", {})[fl] = len(sby)
    # typed messages that follow, on the same thread, a send whose serialisation failed half-way: bytes of the abandoned message must
    # not be mixed into the next one (frag driver, typed level, both builds)
    tcases = [{"id": 400000 + i, "len": L, "nsend": i % 2, "nrecv": 0, "nshm": i % 2, "level": "typed", "prefail": 1}
              for i, L in enumerate([0, 10, 300, F.ffs(4096) - 40, F.ffs(4096) + 1, 3 * F.fs(4096)])]
    for fl, S, shim in (("default", 4096, True), ("inprocess", None, False)):
        for it in F.run_cases(bins[fl], S, tcases, flavour=fl, shim=shim):
            why = F.oracle(chk, it, True)
            if why:
                fails.append((it, why))
                chk.failing_input("a typed message sent right after a send whose serialisation failed half-way: " + why,
                                  {"build": fl, "input": it["case"], "observed": it["rec"]}, key="c02prefail:%s:%d" % (fl, it["case"]["len"]))
    chk.coverage["messages_after_failed_serialisation"] = 2 * len(tcases)
    ncmp, bad, errors = F.correspond(sends, "c02")
    cov = chk.coverage
    cov["evaluations"] = len(items)
    cov["messages"] = sum(len(p) for it in items for p in it["case"]["plans"])
    cov["traces_validated_against_impl"] = ncmp
    cov["distinct_nontrivial"] = len({str(it["case"]["plans"]) + it["case"]["mode"] for it in items
                                      if len(it["case"]["plans"]) > 1 and any(x > F.ffs(it["case"]["S"]) for p in it["case"]["plans"] for x in p)})
    cov["correspondence_mismatches"] = len(bad)
    cov["rule"] = ("conc driver: 1..8 senders (threads; every 5th run forked processes) x 1..6 messages per sender drawn from "
                   "{64 B, 900 B, cap, cap+1, 3 packets, 6 packets}, S in {4096, 8192, 16384, default}, receiver eager / delayed / polling try_recv / polling try_recv_timeout / "
                   "through a receiver set, every 4th run started only after all senders have finished and dropped their handles, shim sleeping 0..400 us after each first fragment, every 6th run with "
                   "ENOBUFS injected into transmission attempts of every send; in-process build too; "
                   "every send()'s system-call sequence is compared with Frag.send (follow-ups on the dedicated socket only); "
                   "non-trivial = at least 2 senders and at least one multi-packet message")
    cov["input_distribution"] = {"modes": {m: sum(1 for it in items if it["case"]["mode"] == m) for m in ("eager", "delayed", "poll", "set", "timeout")},
                                 "procs": sum(1 for it in items if it["case"]["procs"]), "senders": {str(k): sum(1 for it in items if len(it["case"]["plans"]) == k) for k in range(1, 9)}}
    for it in items[:2]:
        chk.sample({"input": it["case"], "delivery_order": [(g[0], g[1]) for g in (it["rec"] or {}).get("got", [])][:20]})
    if errors:
        chk.unproved("model evaluation (coqc on generated cases) failed", errors[0])
    if bad and not fails:
        it = bad[0]
        chk.unproved("correspondence: a send()'s call sequence differs from Frag.send on %d of %d sends (premise of Conc: first packet on the shared "
                     "socket carrying the dedicated receiver, follow-ups on the dedicated socket)" % (len(bad), ncmp),
                     {"input": it["case"], "observed_send": it["send_obs"], "model": F.model_view(it)})
    # whole and exactly once also for messages that carry regions and endpoints next to multi-packet data (frag driver, oracle only)
    cap2, f2 = F.ffs(4096), F.fs(4096)
    mixc = [{"id": 800 + i, "len": L, "nsend": ns, "nrecv": nr, "nshm": nm, "level": lv}
            for i, (L, ns, nr, nm, lv) in enumerate([(cap2 + 2 * f2 + 5, 0, 0, 1, "platform"), (cap2 + 2 * f2 + 5, 1, 1, 2, "typed"), (cap2 + 5 * f2, 0, 0, 1, "typed"),
                                                      (cap2 + 1, 2, 0, 1, "platform"), (100, 1, 1, 3, "typed"), (cap2 + 3 * f2, 1, 0, 0, "bytes")])]
    for c in mixc:
        if c["level"] == "bytes":
            c.update(nsend=0, nrecv=0, nshm=0)
    for it in F.run_cases(bins["default"], 4096, mixc):
        why = F.oracle(chk, it, True)
        if why:
            c = it["case"]
            fails.append((None, why))
            chk.failing_input("a message with regions / endpoints next to multi-packet data: " + why, {"input": c, "observed": it["rec"]},
                              key="c02mix:len=%d ns=%d nr=%d nm=%d %s" % (c["len"], c["nsend"], c["nrecv"], c["nshm"], c["level"]))
    cov["mixed_attachment_cases"] = len(mixc)
    # exactly once across a change of owner: the first owner takes ONE of several queued messages with a plain receive, then the receiver
    # travels on inside a message; the new owner gets every other message once, in order, then the later ones (wake driver, both builds)
    prng = random.Random(chk.seed + 19)
    pcs = [{"id": 700 + i, "mode": ["recv", "timed", "poll"][i % 3], "nmsg": [2, 5, 34, 40, 70][i % 5], "clones": prng.randint(1, 3)} for i in range(20 if thorough else 10)]
    plines = ["id=%d how=partial mode=%s delay_us=300 nmsg=%d clones=%d" % (c["id"], c["mode"], c["nmsg"], c["clones"]) for c in pcs]
    for fl in ("default", "inprocess"):
        precs, _, prc, perr = C.run_harness(bins[fl], "wake", plines, shim=False, timeout=300)
        pby = {r["id"]: r for r in precs if r.get("kind") == "wake"}
        for l, c in zip(plines, pcs):
            r = pby.get(c["id"])
            why = None
            if r is None:
                why = "no record (process died): %s" % perr[-200:]
            elif r.get("first") != 0:
                why = "the first owner's receive returned %s instead of message 0" % r.get("first")
            elif r["out"] == "Hang":
                why = "the new owner waited for ever (watchdog 8 s)"
            elif r["got"] != list(range(1, c["nmsg"] + c["clones"])):
                why = ("the new owner received %s instead of messages 1..%d once each in order (%d were queued when the first owner took message 0, %d were sent after the transfer)"
                       % (r["got"][:12], c["nmsg"] + c["clones"] - 1, c["nmsg"], c["clones"]))
            if why:
                fails.append((None, why))
                chk.failing_input("a receiver whose first owner took one of several queued messages and then sent it on inside a message, %s build: %s" % (fl, why),
                                  {"build": fl, "scenario": l, "observed": r}, key="partial:%s:%s" % (fl, l))
                break
        cov.setdefault("partial_receive_then_transfer", {})[fl] = len(pby)
    chk.assumptions += ["SOCK_SEQPACKET keeps packet boundaries and per-socket FIFO order (kernel; trusted)",
                        "real thread scheduling is not exhibited by the model: the theorem covers every interleaving, the runs sample some"]
    finish_proof(chk, proof_ok, fails, bad)


# ------------------------------------------------------------------ C12
def crash_shapes(S):
    cap, f = F.ffs(S), F.fs(S)
    return {1: 1000, 2: cap + 100, 3: cap + f + 100, 6: cap + 4 * f + 100}


def crash_oracle(it):
    c, rec, ch = it["case"], it["rec"], it["child"]
    if rec is None:
        return "harness died: %s" % it["stderr"][-300:]
    if rec["hang"]:
        return "receiver waited for ever after the sender died (k=%d)" % c["k"]
    msgs = [e["msg"] for e in rec["log"] if isinstance(e, dict) and "msg" in e]
    words = [e for e in rec["log"] if isinstance(e, str)]
    for m in msgs:
        if not m[3]:
            return "a shortened or mixed payload was presented as a complete message (sender %s seq %s len %s)" % (m[0], m[1], m[2])
    ids = [(m[0], m[1]) for m in msgs]
    if len(set(ids)) != len(ids):
        return "a message was delivered twice"
    if ch["p_sent"] and (7, 0) not in ids:
        return "the message whose send had returned before the crash was not delivered"
    if ch["t_returned"] and (7, 1) not in ids:
        return "the message whose send had returned before the crash was not delivered (target message)"
    order = [i for i in ids if i in ((7, 0), (7, 1), (9, 0))]
    if order != sorted(order):
        return "messages delivered out of order: %s" % order
    if c["observe"] == "timeout_live":
        # the timed receives ran while the sender was still alive (it hung 300 ms after the first fragment, then died)
        if "Panic" in words:
            return ("try_recv_timeout(100 ms) panicked: it had taken the first fragment of a message whose sender hung and died 300 ms later, "
                    "i.e. after the receive's own timeout had long passed")
        whole = ch["t_first"] and ch["t_follow"] >= c["npk"] - 1
        if whole and (7, 1) not in ids:
            return "a message whose last fragment had been sent before the sender died was not delivered"
        if not whole and (7, 1) in ids:
            return "an unfinished message was delivered"
        if c["survivor"] and "Disconnected" in words:
            return "receiver was told 'disconnected' although another sender handle survives"
        if not c["survivor"] and (not words or words[-1] != "Disconnected"):
            return "no surviving sender, yet the timed receives never reported 'disconnected' (log ends %s)" % rec["log"][-2:]
        if any(w not in ("Empty", "Disconnected") for w in words):
            return "a timed receive reported %s" % [w for w in words if w not in ("Empty", "Disconnected")][0]
        if rec.get("fds_after") != rec.get("fds_before"):
            return "descriptors left behind: %s -> %s" % (rec.get("fds_before"), rec.get("fds_after"))
        return None
    if c["observe"] == "timeout_idle":
        waits = [e["waits"] for e in rec["log"] if isinstance(e, dict) and "waits" in e]
        for w, us in (waits[0] if waits else []):
            if w == "Empty" and us < 240000:
                return ("try_recv_timeout(250 ms) on a connected, idle channel (a sender survives; the crashed sender left %s) reported 'empty' after only %d us"
                        % ("an unfinished message behind" if ch["t_first"] and not ch["t_returned"] else "nothing unfinished behind", us))
            if w not in ("Empty",):
                return "try_recv_timeout on a connected channel with a surviving sender reported %s" % w
        if rec.get("fds_after") != rec.get("fds_before"):
            return "descriptors left behind: %s -> %s" % (rec.get("fds_before"), rec.get("fds_after"))
        return None
    if c["survivor"]:
        if "Disconnected" in words:
            return "receiver was told 'disconnected' although another sender handle survives"
        if (9, 0) not in ids:
            return "message from the surviving sender did not arrive (log %s)" % rec["log"]
        if rec["after"] not in (None, "Empty"):
            return "after the crash the channel with a surviving sender reports %s instead of Empty" % rec["after"]
        satts = [e["survivor_atts"] for e in rec["log"] if isinstance(e, dict) and "survivor_atts" in e]
        if satts and (satts[0][0] != 1 or not satts[0][1] or not rec.get("survivor_probe")):
            return ("the surviving sender's message, which embeds one endpoint, arrived with %d attachments (first one usable: %s, connected to the embedded endpoint: %s) "
                    "after the crashed sender's interrupted message" % (satts[0][0], satts[0][1], rec.get("survivor_probe")))
    else:
        if not words or words[-1] != "Disconnected":
            return "no surviving sender, yet the receiver was not told 'disconnected' (log ends %s)" % rec["log"][-2:]
    for sent, got in rec.get("own_state", []):
        if not sent or not got:
            return ("the program's own handle on a channel whose sender had also been attached to the interrupted message stopped working after that message was discarded "
                    "(send ok: %s, delivered to the channel's receiver: %s)" % (sent, got))
    if any(a != "Disconnected" for a in rec["att_state"]):
        return "attachments of the interrupted message were not released: %s" % rec["att_state"]
    if rec.get("fds_after") != rec.get("fds_before") or rec.get("maps_after") != rec.get("maps_before"):
        return ("after the crashed sender's messages were received (or discarded) and every handle was dropped, the receiving process holds %s descriptors / %s mappings "
                "instead of %s / %s (the interrupted message carried %d channels and %d regions)"
                % (rec.get("fds_after"), rec.get("maps_after"), rec.get("fds_before"), rec.get("maps_before"), c["natt"], c.get("nreg", 0)))
    return None


def idle_model_terms(it):
    """Timed.recv_all terms for the two timed receives of a timeout_idle observation (None if the record is unusable)"""
    c, rec, ch = it["case"], it["rec"], it["child"]
    if rec is None or rec["hang"] or not it.get("obs_calls"):
        return None
    queue = []
    if ch["p_sent"]:
        queue.append("msg")
    # the message is whole at the receiver once its last fragment is out, even if the sender died before send() returned
    if ch["t_first"] and ch["t_follow"] >= c["npk"] - 1:
        queue.append("msg")
    elif ch["t_first"]:
        queue.append("torn")
    rounds = [e["round"] for e in rec["log"] if isinstance(e, dict) and "round" in e]
    terms = []
    for rnd in (0, 1):
        torn = 0
        while queue and queue[0] == "torn":
            queue.pop(0)
            torn += 1
        q = "QMsg" if queue else "QIdle"
        if queue:
            queue.pop(0)
        got = next((o for r0, o in rounds if r0 == rnd), None)
        out = "OMsg" if got == "OMsg" else "OEmpty"
        terms.append("check_recv_all (MTimeout 250000) %d %s None %s [%s]" % (torn, q, out, "; ".join(it["obs_calls"][rnd])))
    return "(%s) && (%s)" % tuple(terms)


def idle_model_eval(chk, items, tag, report=True):
    """the timed receives on the idle channel: their call sequence (flag, poll, recvmsg on the receiver's socket) against Timed.recv_all,
    with one torn message in front when the sender died inside the multi-fragment send; returns (mismatches, evaluated, errors)"""
    theader = "From Coq Require Import List Bool ZArith.\nFrom IPC Require Import Timed TimedCheck.\nImport ListNotations.\nOpen Scope Z_scope.\n"
    ttodo = [(i, t) for i, t in ((i, idle_model_terms(it)) for i, it in enumerate(items) if it["case"]["observe"] == "timeout_idle") if t]
    if not ttodo:
        return 0, 0, []
    tres, terrors = C.coq_eval_sharded(theader, ttodo, lambda p: "Eval vm_compute in (%d, %s)." % p, tag)
    tbad = [(items[i], t) for i, t in ttodo if tres.get(i) != "true"]
    if tbad and report:
        it, t = tbad[0]
        chk.unproved("correspondence TimedCheck.check_recv_all: the system calls of a timed receive on the idle channel after a crashed sender differ from Timed.recv_all on %d of %d kill points"
                     % (len(tbad), len(ttodo)), {"input": it["case"], "child_progress": it["child"], "observed": it["rec"], "calls": it["obs_calls"], "model_term": t})
    chk.coverage["timed_receives_after_crash_replayed_on_model"] = len(ttodo) - len(tbad)
    return len(tbad), len(ttodo), (terrors or [])


def crash_model_term(it):
    c, rec, ch = it["case"], it["rec"], it["child"]
    labels, mid = [], 0
    if ch["p_sent"]:
        labels.append("LStart (mk_plan 100 1)")
        mid += 1
    if ch["t_first"]:
        labels.append("LStart (mk_plan 200 %d)" % c["npk"])
        labels += ["LFollow %d" % mid] * ch["t_follow"]
        if ch["t_follow"] < c["npk"] - 1 and not ch["t_closed_tx"]:
            labels.append("LCrash %d" % mid)
        elif ch["t_follow"] < c["npk"] - 1:
            labels.append("LCrash %d" % mid)
        mid += 1
    if c["survivor"]:
        labels.append("LStart (mk_plan 300 1)")
    msgs = [e["msg"] for e in rec["log"] if isinstance(e, dict) and "msg" in e]
    exp = []
    for m in msgs:
        if (m[0], m[1]) == (7, 0):
            exp.append("[100]")
        elif (m[0], m[1]) == (7, 1):
            exp.append("[" + "; ".join(str(200 + i) for i in range(c["npk"])) + "]")
        elif (m[0], m[1]) == (9, 0):
            exp.append("[300]")
        else:
            exp.append("[0]")
    return "check_crash [%s] [%s] false" % ("; ".join(labels), "; ".join(exp))


def run_crash(binp, S, cases):
    # own=1 on every other case with attachments: the program keeps a handle of its own on each attached channel
    lines = ["id=%d len=%d k=%d survivor=%d natt=%d nreg=%d observe=%s%s" % (c["id"], c["len"], c["k"], c["survivor"], c["natt"], c.get("nreg", 0), c["observe"],
                                                                           " own=1" if (c["natt"] and c["id"] % 2 == 0) else "") for c in cases]
    recs, trace, rc, err = C.run_harness(binp, "crash", lines, env_extra={"VSHIM_SNDBUF": S}, timeout=900)
    by = {r["id"]: r for r in recs if r.get("kind") == "crash"}
    out = []
    bad_cloexec = [r for r in trace if r["call"] in ("socketpair", "socket", "accept", "dup", "install", "shm_open", "epoll_create") and r.get("cloexec") == 0]
    for c in cases:
        so = C.ops_between(trace, "send %d.T" % c["id"], "\0never") or []
        sp = C.ops_between(trace, "send %d.P" % c["id"], "endsend %d.P" % c["id"]) or []
        tx = None
        ch = {"p_sent": any(o["call"] == "sendmsg" and o["res"] > 0 for o in sp), "t_first": False, "t_follow": 0, "t_closed_tx": False,
              "t_returned": any(r["call"] == "mark" and r.get("label") == "endsend %d.T" % c["id"] for r in trace)}
        for o in so:
            if o["call"] == "mark":
                break
            if o["call"] == "socketpair":
                tx = o["a"]
            elif o["call"] == "sendmsg" and o["res"] > 0:
                ch["t_first"] = True
            elif o["call"] == "send" and o["res"] > 0:
                ch["t_follow"] += 1
            elif o["call"] == "close" and o["fd"] == tx:
                ch["t_closed_tx"] = True
        obs_calls = None
        if c["observe"] == "timeout_idle":
            # the two timed receives of the observer: flag / poll / recvmsg calls on the receiver's own socket
            obs_calls = []
            for rnd in (0, 1):
                seg = C.ops_between(trace, "obs %d.%d" % (c["id"], rnd), "endobs %d.%d" % (c["id"], rnd)) or []
                main_fd = next((r["fd"] for r in seg if r["call"] in ("setfl", "poll", "recvmsg")), None)
                calls = []
                for r in seg:
                    if r.get("fd") != main_fd:
                        continue
                    if r["call"] == "setfl":
                        calls.append("CSetfl %s" % ("true" if r["nonblock"] else "false"))
                    elif r["call"] == "poll":
                        calls.append("CPoll (%d) %s" % (r["timeout"], "true" if r["res"] > 0 else "false"))
                    elif r["call"] == "recvmsg":
                        calls.append("CRecvmsg false")
                obs_calls.append(calls)
        out.append({"case": c, "rec": by.get(c["id"]), "child": ch, "stderr": err if c["id"] not in by else "", "bad_cloexec": bad_cloexec, "obs_calls": obs_calls})
    return out


def check_C12(chk):
    thorough = chk.tier == "thorough"
    proof_ok = C.proof_stage(chk, "C12")
    bins = build_all(chk, ["default"])
    if not all(bins.values()):
        return
    jobs, nid = [], itertools.count(1)
    for S in ([4096, 8192, 16384] if thorough else [4096]):
        shapes = crash_shapes(S)
        for observe in ("recv", "try", "select", "timeout"):
            cases = []
            for npk, L in shapes.items():
                for natt in ((0, 2) if thorough else (0 if npk in (1, 3) else 2,)):
                    ncalls = 1 + (1 if npk == 1 else 3 + npk) + natt + 1
                    for k in range(0, ncalls + 2):
                        for surv in (0, 1):
                            cases.append({"id": next(nid), "len": L, "k": k, "survivor": surv, "natt": natt, "nreg": 2 if (natt and k % 2) else 0, "observe": observe, "npk": npk, "S": S})
            if observe == "timeout":
                # timed receives issued while the sender is still alive: it hangs 300 ms after the first fragment and dies at its next
                # call, long after the 100 ms timeout of the receive that took the first fragment
                for npk, L in shapes.items():
                    if npk >= 2:
                        for k in range(3, 3 + npk + 2):
                            for surv in (0, 1):
                                cases.append({"id": next(nid), "len": L, "k": k, "survivor": surv, "natt": 0, "nreg": 0, "observe": "timeout_live", "npk": npk, "S": S})
                # a timed receive on the connected, idle channel right after the crash (the survivor stays silent)
                for npk, L in shapes.items():
                    for k in range(0, 1 + (1 if npk == 1 else 3 + npk) + 2):
                        cases.append({"id": next(nid), "len": L, "k": k, "survivor": 1, "natt": 0, "nreg": 0, "observe": "timeout_idle", "npk": npk, "S": S})
            jobs.append((S, cases))
    with concurrent.futures.ThreadPoolExecutor(max_workers=8) as ex:
        items = [it for r in ex.map(lambda j: run_crash(bins["default"], j[0], j[1]), jobs) for it in r]
    # the sending process may exec something while a send is in progress: nothing it creates for the transfer may be inheritable
    # (a child holding the dedicated channel would keep a receiver waiting after the sender has died)
    badc = [r for it in items[:1] + items[len(items) // 2:len(items) // 2 + 1] + items[-1:] for r in it.get("bad_cloexec", [])]
    if badc:
        chk.failing_input("crash driver: the sending process created a descriptor without close-on-exec (%s): a program it execs during a multi-fragment send would keep the "
                          "transfer's channel open after the sender has died, and the receiver waiting" % {k: badc[0].get(k) for k in ("call", "a", "b", "fd")},
                          {"calls": badc[:4]}, key="c12cloexec:%s" % badc[0]["call"])
    fails = []
    for it in items:
        why = crash_oracle(it)
        if why:
            fails.append((it, why))
    for it, why in fails[:8]:
        c = it["case"]
        key = "S=%d npk=%d len=%d k=%d survivor=%d natt=%d observe=%s" % (c["S"], c["npk"], c["len"], c["k"], c["survivor"], c["natt"], c["observe"])
        chk.failing_input(why, {"input": c, "child_progress": it["child"], "observed": it["rec"]}, key=key)
    header = "From Coq Require Import List Bool.\nFrom IPC Require Import Crash CrashCheck.\nImport ListNotations.\n"
    todo = [(i, crash_model_term(it)) for i, it in enumerate(items) if it["rec"] is not None and not it["rec"]["hang"] and it["case"]["observe"] not in ("timeout_idle", "timeout_live")]
    res, errors = C.coq_eval_sharded(header, todo, lambda p: "Eval vm_compute in (%d, %s)." % p, "c12")
    bad = [items[i] for i, _ in todo if res.get(i) != "true"]
    # the timed receives on the idle channel: their call sequence (flag, poll, recvmsg on the receiver's socket) against Timed.recv_all,
    # with one torn message in front when the sender died inside the multi-fragment send
    tbad_n, nt, terrors = idle_model_eval(chk, items, "c12t", report=not fails)
    errors = (errors or []) + terrors
    todo = todo + [None] * nt
    cov = chk.coverage
    cov["evaluations"] = len(items)
    cov["exhaustive"] = True
    cov["traces_validated_against_impl"] = len(todo)
    cov["distinct_nontrivial"] = len({(it["case"]["npk"], it["case"]["k"], it["case"]["survivor"], it["case"]["observe"], it["case"]["natt"], it["case"]["S"])
                                      for it in items if it["child"]["t_first"] and not it["child"]["t_returned"]})
    cov["correspondence_mismatches"] = len(bad) + tbad_n
    cov["rule"] = ("crash driver: forked sender sends one small message then a message of 1, 2, 3 or 6 packets (with/without attachments) and is killed "
                   "(SIGKILL raised by the shim) before its k-th tracked libc call, for EVERY k from 0 to one past its last call; 0 or 1 surviving "
                   "sender handle in the parent; observed by blocking recv, try_recv, try_recv_timeout and select; the child's progress is read from its trace, the "
                   "Crash LTS is run on the corresponding schedule and its deliveries compared; non-trivial = killed after the first fragment, before send returned")
    cov["input_distribution"] = {"killed_mid_message": cov["distinct_nontrivial"], "shapes": sorted({it["case"]["npk"] for it in items}),
                                 "observers": sorted({it["case"]["observe"] for it in items})}
    for it in [i for i in items if i["child"]["t_first"] and not i["child"]["t_returned"]][:3]:
        chk.sample({"input": it["case"], "child_progress": it["child"], "receiver_log": it["rec"] and it["rec"]["log"], "after": it["rec"] and it["rec"]["after"]})
    if errors:
        chk.unproved("model evaluation (coqc on generated cases) failed", errors[0])
    if bad and not fails:
        it = bad[0]
        chk.unproved("correspondence CrashCheck.check_crash: deliveries differ from the Crash LTS on %d of %d schedules" % (len(bad), len(todo)),
                     {"input": it["case"], "child_progress": it["child"], "observed": it["rec"], "model_term": crash_model_term(it)})
    chk.assumptions += ["a killed process's descriptors are closed by the kernel in some order (modelled by LCrash: remaining chunks never sent, dedicated socket reaches end-of-file)",
                        "kill points are libc-call boundaries of the sending process (the shim raises SIGKILL before the k-th tracked call)"]
    finish_proof(chk, proof_ok, fails, bad + [None] * tbad_n)


# ------------------------------------------------------------------ C09
def run_vanish(binp, S, cases):
    lines = ["id=%d scen=%s len=%d natt=%d proc=%d%s" % (c["id"], c["scen"], c["len"], c.get("natt", 0), c.get("proc", 0),
                                                       (" rounds=%d" % c["rounds"]) if c.get("rounds") else "") for c in cases]
    env = {"VSHIM_SNDBUF": S} if S else {}
    recs, trace, rc, err = C.run_harness(binp, "vanish", lines, env_extra=env, timeout=600)
    by = {r["id"]: r for r in recs if r.get("kind") == "vanish"}
    out = []
    for c in cases:
        it = {"case": dict(c, S=S or F.DEFAULT_S), "rec": by.get(c["id"]), "send_obs": None, "recv_obs": None, "stderr": err if c["id"] not in by else ""}
        if c["scen"] == "before" and trace:
            so = C.ops_between(trace, "send %d" % c["id"], "endsend %d" % c["id"])
            if so is not None:
                it["send_obs"] = F.project_send(so)
        out.append(it)
    return out


def vanish_oracle(it):
    c, rec = it["case"], it["rec"]
    if rec is None:
        return "harness died: %s" % it["stderr"][-300:]
    o = rec["out"]
    sc = c["scen"]
    if sc == "bytes_empty":
        if o["send"] != "Err":
            return "an empty payload sent on a raw-bytes channel whose receiver no longer exists reported success"
        if o["transit"] != "Ok" or o["got"] != [0, 2]:
            return "an empty payload sent to a raw-bytes receiver in transit: send %s, the receiver then yielded payload lengths %s instead of [0, 2]" % (o["transit"], o["got"])
    elif sc == "carrier_fail":
        if not str(o["carrier"]).startswith("Err"):
            return "a send to a vanished receiver (carrying another channel's receiving end) reported %s" % o["carrier"]
        for k, what in (("small", "a small message"), ("big", "a multi-fragment message")):
            if o[k] == "hang":
                return "the receiving end of a channel went down inside a message whose send was refused; sending %s on that channel then blocked for ever" % what
            if o[k] == "Ok":
                return ("the receiving end of a channel went down inside a message whose send was refused (the carrier's receiver had vanished); sending %s on that channel "
                        "afterwards reported success" % what)
    elif sc == "server_dropped":
        s = o["send"]
        if s == "hang":
            return "send to a client endpoint of a one-shot server that was dropped without accepting blocked for ever"
        if s == "Ok":
            return "send to a client endpoint of a one-shot server that was dropped without accepting (its receiving end no longer exists) reported success"
        if not s.startswith("Err"):
            return "unexpected result %s" % s
    elif sc in ("before", "during", "carrier"):
        s = o["send"]
        if s == "hang":
            return "send to a receiver that no longer exists blocked for ever"
        if s == "Ok":
            return "send to a receiver that no longer exists reported success"
        if s.startswith("signal"):
            return "send to a receiver that no longer exists terminated the process with %s" % s
        if not s.startswith("Err"):
            return "unexpected result %s" % s
        if sc == "carrier" and (o["carrier"] != "Ok" or o["before"] != "Ok"):
            return "send to a receiver in transit failed (%s / %s)" % (o["carrier"], o["before"])
    elif sc == "execchild":
        if not o.get("unpacked"):
            return "the carrier message with the receiving end could not be received (%s)" % o.get("carrier")
        s = o["send"]
        if s == "hang":
            return "send to a receiver the program had dropped blocked for ever: a child process exec'd meanwhile still holds the receiving end"
        if s == "Ok":
            return "send to a receiver the program had dropped reported success: a child process exec'd meanwhile still holds the receiving end"
        if not s.startswith("Err"):
            return "unexpected result %s" % s
    elif sc == "drainkill":
        if o["signals"]:
            return ("a multi-fragment send whose receiver was killed while reading terminated the sending process with signal %s in %d of %d rounds "
                    "(SIGPIPE at its default disposition)" % (o["signals"][0], len(o["signals"]), o["rounds"]))
        if o["hangs"]:
            return "a multi-fragment send whose receiver was killed while reading blocked for ever in %d of %d rounds" % (o["hangs"], o["rounds"])
    elif sc == "transit":
        if any(x != "Ok" for x in o["sends"]):
            return "send to a receiving end that is merely in transit failed: %s" % o["sends"]
        if not o["unpacked"]:
            return "the receiver in transit could not be unpacked"
        want = [[2, 0, 40, True], [2, 1, max(c["len"], 32), True], [2, 2, 50, True]]
        if o["got"] != want:
            return "messages sent while the receiver was in transit were not delivered in order after unpacking: %s" % o["got"]
    if rec["fds_after"] != rec["fds_before"]:
        return "descriptor count changed across the scenario: %d -> %d" % (rec["fds_before"], rec["fds_after"])
    return None


def check_C09(chk):
    thorough = chk.tier == "thorough"
    proof_ok = C.proof_stage(chk, "C09")
    bins = build_all(chk, ["default", "inprocess"])
    if not all(bins.values()):
        return
    nid = itertools.count(1)
    jobs = []
    for S in (4096, None):
        Sv = S or F.DEFAULT_S
        cap, f = F.ffs(Sv), F.fs(Sv)
        cases = []
        for L in (0, 100, cap, cap + 1, cap + f + 100, cap + 4 * f + 100):
            for natt in (0, 3):
                cases.append({"id": next(nid), "scen": "before", "len": L, "natt": natt})
        for L in ((100, cap + 1, cap + 4 * f + 100) if S else (100,)):
            cases.append({"id": next(nid), "scen": "transit", "len": L})
            cases.append({"id": next(nid), "scen": "carrier", "len": L})
        jobs.append((S, cases))
    during = []
    for L in ((3 << 20, 8 << 20, 20 << 20) if thorough else (8 << 20,)):
        for proc in (0, 1):
            during.append({"id": next(nid), "scen": "during", "len": L, "proc": proc})
    during.append({"id": next(nid), "scen": "carrier", "len": 4 << 20})
    during.append({"id": next(nid), "scen": "drainkill", "len": 32 << 20, "rounds": 200 if thorough else 40})
    for L in (100, 1 << 20):
        for proc in (0, 1):      # proc = how the carrier was received: 0 try_recv, 1 try_recv_timeout
            during.append({"id": next(nid), "scen": "execchild", "len": L, "proc": proc})
    # the receiving end sits in a one-shot server that is dropped, unaccepted, after the client has connected
    for L in (100, 1 << 20):
        during.append({"id": next(nid), "scen": "server_dropped", "len": L})
    # the receiving end went down inside a message whose own send was refused (its carrier's receiver had vanished)
    for L in (100, 1 << 20):
        during.append({"id": next(nid), "scen": "carrier_fail", "len": L})
    jobs.append((None, during))
    with concurrent.futures.ThreadPoolExecutor(max_workers=4) as ex:
        items = [it for r in ex.map(lambda j: run_vanish(bins["default"], j[0], j[1]), jobs) for it in r]
    # in-process transport: same scenarios except the forked ones
    during.append({"id": next(nid), "scen": "bytes_empty", "len": 0})
    inp = [{"id": next(nid), "scen": sc, "len": L} for sc in ("transit", "carrier", "server_dropped", "carrier_fail") for L in (100, 100000)]
    inp.append({"id": next(nid), "scen": "bytes_empty", "len": 0})
    recs, _, _, err = C.run_harness(bins["inprocess"], "vanish", ["id=%d scen=%s len=%d" % (c["id"], c["scen"], c["len"]) for c in inp], shim=False, timeout=120)
    by = {r["id"]: r for r in recs if r.get("kind") == "vanish"}
    items += [{"case": dict(c, S=0, flavour="inprocess"), "rec": by.get(c["id"]), "send_obs": None, "recv_obs": None, "stderr": err} for c in inp]
    fails = []
    for it in items:
        why = vanish_oracle(it)
        if why:
            fails.append((it, why))
    for it, why in fails[:8]:
        c = it["case"]
        chk.failing_input(why, {"input": c, "observed": it["rec"]}, key="scen=%s len=%d natt=%s proc=%s S=%s" % (c["scen"], c["len"], c.get("natt"), c.get("proc"), c["S"]))
    # correspondence: the call sequence of a send to a vanished receiver is Frag.send under the oracle [FPipe]
    todo = []
    for i, it in enumerate(items):
        c = it["case"]
        if it["send_obs"] is not None and it["rec"] and it["rec"]["out"].get("send") == "Err":
            todo.append((i, "check_send %d %d %d [FPipe] ErrPipe [%s]" % (c["S"], max(c["len"], 32), c.get("natt", 0), "; ".join(it["send_obs"]))))
    res, errors = C.coq_eval_sharded(F.HEADER, todo, lambda p: "Eval vm_compute in (%d, %s)." % p, "c09")
    bad = [items[i] for i, _ in todo if res.get(i) != "true"]
    cov = chk.coverage
    cov["evaluations"] = len(items)
    cov["traces_validated_against_impl"] = len(todo)
    cov["distinct_nontrivial"] = len({(it["case"]["scen"], it["case"]["len"], it["case"].get("natt"), it["case"].get("proc"), it["case"]["S"]) for it in items
                                      if it["case"]["len"] > 100 or it["case"]["scen"] != "before"})
    cov["correspondence_mismatches"] = len(bad)
    cov["rule"] = ("vanish driver: receiver dropped BEFORE the send (forked sender with SIGPIPE at its default disposition; lengths 0, small, one packet, +1, 3 and 6 packets; "
                   "0 or 3 attachments; S=4096 and default), DURING a send blocked on full buffers (receiver dropped by the same process after 100 ms, or held by a child "
                   "process that exits), receiver IN TRANSIT inside an undelivered message (sends must succeed and arrive in order after unpacking), and the CARRYING "
                   "queue dropped; in-process build for the last two; non-trivial = anything but a small send to an already closed receiver")
    for it in items[:1] + [i for i in items if i["case"]["scen"] != "before"][:3]:
        chk.sample({"input": it["case"], "observed": it["rec"] and it["rec"]["out"], "send_trace": it["send_obs"]})
    if errors:
        chk.unproved("model evaluation (coqc on generated cases) failed", errors[0])
    if bad and not fails:
        it = bad[0]
        chk.unproved("correspondence: call sequence of a send to a vanished receiver differs from Frag.send under [FPipe]",
                     {"input": it["case"], "observed_send": it["send_obs"]})
    # in-process build: the dropped-server scenarios replayed on the InprocSrv LTS (send results in order)
    itodo = []
    for it in items:
        c, rec = it["case"], it["rec"]
        if c.get("flavour") == "inprocess" and c["scen"] == "server_dropped" and rec and rec["out"].get("send") in ("Ok",) or \
           (c.get("flavour") == "inprocess" and c["scen"] == "server_dropped" and rec and str(rec["out"].get("send", "")).startswith("Err")):
            itodo.append((len(itodo), "check_isrv_sends [INew; IConnect; IDropSrv; ISend 0] [%s]" % ("true" if rec["out"]["send"] == "Ok" else "false"), it))
    if itodo:
        iheader = "From Coq Require Import List Bool.\nFrom IPC Require Import InprocSrv InprocSrvCheck.\nImport ListNotations.\n"
        ires, ierrors = C.coq_eval_sharded(iheader, [(i, t) for i, t, _ in itodo], lambda p: "Eval vm_compute in (%d, %s)." % p, "c09inproc")
        ibad = [it for i, t, it in itodo if ires.get(i) != "true"]
        chk.coverage["inproc_dropped_server_scenarios_replayed"] = len(itodo) - len(ibad)
        if ierrors:
            chk.unproved("model evaluation (coqc on in-process dropped-server cases) failed", ierrors[0][-1500:])
        if ibad and not fails:
            chk.unproved("correspondence InprocSrvCheck.check_isrv_sends: result of a send to a client endpoint of a dropped in-process server differs from the InprocSrv LTS",
                         {"input": ibad[0]["case"], "observed": ibad[0]["rec"]})
        bad = bad + ibad
    # receivers IN TRANSIT inside messages that are themselves sent from inside another value's serialisation (after the enclosing value
    # attached endpoints of its own): they arrive, usable, at the position they were embedded at (script driver shared with C14)
    from . import props_codec as PC9
    scases, sgot, sfails, stodo, sbad, serrors = PC9.script_stage(chk, random.Random(chk.seed + 33), bins["default"], 800 if thorough else 80, 3, tag="c09script")
    chk.coverage["nested_send_values"] = len(scases)
    if serrors:
        chk.unproved("model evaluation (coqc on generated nested-send cases) failed", serrors[0][-1500:])
    if sbad and not sfails and not fails:
        c9, r9 = sbad[0]
        chk.unproved("correspondence TlsCheck.check_script: attachments of nested / enclosing messages differ from Tls.ipc_send on %d of %d values" % (len(sbad), len(stodo)),
                     {"serializer_program": c9["body"], "kinds": c9["kinds"], "pre": c9["pre"], "observed": r9 and r9["result"]})
    fails = fails + list(sfails)
    bad = bad + list(sbad)
    # receivers that vanish inside histories (dropped, moved, carried by messages that die or cannot be decoded): prog driver slice
    from . import props_prog as PP
    pf, pb = PP.prog_slice(chk, "C09", bins["default"], 400 if thorough else 48, 60)
    fails = fails + pf
    bad = bad + pb
    chk.assumptions += ["a socket whose peer description has no reference left (held or in flight in a live queue) reports EPIPE/ECONNRESET to the sender (kernel)",
                        "that a thread blocked in send(2) is woken when the peer disappears is kernel behaviour, exercised by the 'during' scenarios under a watchdog"]
    finish_proof(chk, proof_ok, fails, bad)
