"""Shared machinery of /verif/bin/vcheck: translation, Coq build + audit, harness build and runs,
shim log parsing, model evaluation through coqc, evidence and verdicts."""
import fcntl
import json
import os
import re
import subprocess
import sys
import time

ROOT = os.path.dirname(os.path.dirname(os.path.abspath(__file__)))
REPO = os.environ.get("VERIF_REPO", "/repo")
BUILD = os.path.join(ROOT, "build")
COQ = os.path.join(ROOT, "coq")
EVID = os.path.join(ROOT, "evidence")
REPLAY = os.path.join(BUILD, "replay")
GUARD = "ipc_channel_verif"
COQ_FLAGS = ["-Q", "lib", "IPC", "-Q", "gen", "IPC", "-Q", "model", "IPC", "-Q", "proofs", "IPC", "-Q", "props", "IPC"]

ENV = dict(os.environ)
ENV.update({"CARGO_NET_OFFLINE": "true", "RUSTFLAGS": (os.environ.get("RUSTFLAGS", "") + " --cfg " + GUARD).strip()})

TRUSTED_BASE = [
    "Coq 8.16.1 kernel (coqc); vm_compute used in Examples and in the correspondence evaluation; no native_compute",
    "no axioms: every property theorem prints 'Closed under the global context' (checked on every run)",
    "translator /verif/translator/rs2v.py (Rust token stream -> coq/gen/Params.v)",
    "correspondence check: LD_PRELOAD shim /verif/shim/vshim.c, harness /verif/harness (built against /repo), "
    "trace projection in /verif/vlib, model evaluated by coqc (vm_compute) on the same inputs",
    "modelled, not verified: Linux SOCK_SEQPACKET/SCM_RIGHTS/epoll/poll/shm semantics, bincode, crossbeam, "
    "futures, mio, tempfile, std Arc/Mutex/thread-locals, rustc",
    "not covered: src/platform/macos, src/platform/windows",
]


def log(*a):
    print(*a, file=sys.stderr, flush=True)


def sh(cmd, cwd=None, timeout=None, env=None, input=None):
    p = subprocess.run(cmd, cwd=cwd, timeout=timeout, env=env or ENV, input=input,
                       stdout=subprocess.PIPE, stderr=subprocess.STDOUT, text=True)
    return p.returncode, p.stdout


class Lock:
    def __init__(self, name="build"):
        os.makedirs(BUILD, exist_ok=True)
        self.path = os.path.join(BUILD, "." + name + ".lock")

    def __enter__(self):
        self.f = open(self.path, "w")
        fcntl.flock(self.f, fcntl.LOCK_EX)
        return self

    def __exit__(self, *a):
        fcntl.flock(self.f, fcntl.LOCK_UN)
        self.f.close()


# ---------------------------------------------------------------- translation
def translate():
    """regenerate coq/gen/Params.v from /repo's working tree; returns the translator summary"""
    os.makedirs(os.path.join(COQ, "gen"), exist_ok=True)
    rc, out = sh([sys.executable, os.path.join(ROOT, "translator", "rs2v.py"),
                  os.path.join(REPO, "src/platform/unix/mod.rs"), os.path.join(REPO, "src/ipc.rs"),
                  os.path.join(COQ, "gen", "Params.v"), os.path.join(ROOT, "translator", "pinned", "Params.v")])
    if rc != 0:
        return {"error": out[-2000:], "translated": [], "fallback": {"*": "translator crashed"}, "changed": False}
    try:
        return json.loads(out.strip().splitlines()[-1])
    except Exception:
        return {"error": out[-2000:], "translated": [], "fallback": {"*": "translator output unreadable"}, "changed": False}


# ---------------------------------------------------------------- Coq
def coq_makefile():
    mk = os.path.join(COQ, "Makefile")
    cp = os.path.join(COQ, "_CoqProject")
    if not os.path.exists(mk) or os.path.getmtime(mk) < os.path.getmtime(cp):
        rc, out = sh(["coq_makefile", "-f", "_CoqProject", "-o", "Makefile"], cwd=COQ)
        if rc != 0:
            raise RuntimeError("coq_makefile failed: " + out)


def coq_build(targets, timeout=1500):
    """full .vo build of the given targets (never -vos). returns (ok, log)"""
    coq_makefile()
    rc, out = sh(["timeout", str(timeout), "make", "-j16"] + (["-k"] if not targets else []) + targets, cwd=COQ, timeout=timeout + 60)
    return rc == 0, out


FORBIDDEN = re.compile(r"\b(Admitted|admit|Axiom|Axioms|Parameter|Parameters|Conjecture|Admit\s+Obligations|"
                       r"Unset\s+Guard\s+Checking|Unset\s+Positivity\s+Checking|Unset\s+Universe\s+Checking|"
                       r"bypass_check|give_up)\b")


def strip_comments(s):
    out, depth, i = [], 0, 0
    while i < len(s):
        if s.startswith("(*", i):
            depth += 1
            i += 2
        elif s.startswith("*)", i) and depth:
            depth -= 1
            i += 2
        else:
            if not depth:
                out.append(s[i])
            i += 1
    return "".join(out)


def coq_sources():
    files = []
    for line in open(os.path.join(COQ, "_CoqProject")):
        line = line.strip()
        if line.endswith(".v"):
            files.append(line)
    return files


def coq_forbidden():
    """forbidden vernacular anywhere in the development (comments stripped); Variable/Hypothesis outside sections"""
    bad = []
    for f in coq_sources():
        src = strip_comments(open(os.path.join(COQ, f)).read())
        for m in FORBIDDEN.finditer(src):
            bad.append("%s: %s" % (f, m.group(0)))
        depth = 0
        for stmt in re.split(r"\.\s", src):
            st = stmt.strip()
            if re.match(r"(Section|Module)\s", st) and ":=" not in st:
                depth += 1 if st.startswith("Section") else 0
            elif re.match(r"End\s", st):
                depth = max(0, depth - 1)
            elif re.match(r"(Variable|Variables|Hypothesis|Hypotheses|Context)\b", st) and depth == 0:
                bad.append("%s: %s outside a section" % (f, st.split()[0]))
    return bad


def deps_of(vfile):
    """transitive local dependencies of a .v file (paths relative to coq/), via From IPC Require Import"""
    by_mod = {os.path.basename(f)[:-2]: f for f in coq_sources()}
    seen, todo = [], [vfile]
    while todo:
        f = todo.pop()
        if f in seen:
            continue
        seen.append(f)
        src = strip_comments(open(os.path.join(COQ, f)).read())
        for m in re.finditer(r"From\s+IPC\s+Require\s+(?:Import|Export)\s+([^.]*)\.", src):
            for mod in m.group(1).split():
                if mod in by_mod:
                    todo.append(by_mod[mod])
    return seen


def count_proved(files):
    n = 0
    for f in files:
        src = strip_comments(open(os.path.join(COQ, f)).read())
        n += len(re.findall(r"\b(Qed|Defined)\.", src))
    return n


ALLOWED_AXIOMS = set()


def coq_audit(prop):
    """re-run coqc on props/<prop>.v to read its Print Assumptions output.
    returns dict(ok, theorems, closed, axioms, log)"""
    vf = "props/%s.v" % prop
    src = strip_comments(open(os.path.join(COQ, vf)).read())
    wanted = len(re.findall(r"Print\s+Assumptions", src))
    theorems = re.findall(r"\b(?:Theorem|Corollary)\s+(\w+)", src)
    rc, out = sh(["timeout", "600", "coqc", "-noglob"] + COQ_FLAGS + [vf], cwd=COQ)
    closed = len(re.findall(r"Closed under the global context", out))
    axioms = []
    for blk in re.findall(r"Axioms:\n((?:.+\n)+)", out):
        for ln in blk.splitlines():
            m = re.match(r"^(\S+)\s*:", ln)
            if m:
                axioms.append(m.group(1))
    bad_ax = [a for a in axioms if a not in ALLOWED_AXIOMS]
    # every theorem must be followed by Print Assumptions; every Print Assumptions must be closed (or allow-listed)
    n_ax_blocks = len(re.findall(r"Axioms:", out))
    ok = rc == 0 and wanted >= len(theorems) and wanted >= 1 and closed + n_ax_blocks == wanted and not bad_ax
    return {"ok": ok, "rc": rc, "theorems": theorems, "print_assumptions": wanted, "closed": closed,
            "axioms": axioms, "log": out[-3000:]}


def coq_eval(text, name="cases", timeout=900):
    """evaluate a generated .v file; returns (rc, stdout)"""
    ensure_models()
    d = os.path.join(BUILD, "cases")
    os.makedirs(d, exist_ok=True)
    path = os.path.join(d, name + ".v")
    open(path, "w").write(text)
    rc, out = sh(["timeout", str(timeout), "coqc", "-noglob"] + COQ_FLAGS + ["-Q", d, "Cases", path], cwd=COQ, timeout=timeout + 30)
    return rc, out


_models_ready = False


def ensure_models():
    """the comparison functions (model/*Check.v) are not in any property's cone: build every model file before evaluating"""
    global _models_ready
    if _models_ready:
        return
    with Lock("coq"):
        targets = [f[:-2] + ".vo" for f in coq_sources() if f.startswith("model/")]
        ok, out = coq_build(targets)
        if not ok:
            raise RuntimeError("model files do not compile: " + out[-1500:])
    _models_ready = True


def coq_eval_sharded(header, items, render, name, shard=400):
    """items -> 'Eval vm_compute in (idx, <term>).' lines, evaluated by up to 16 coqc in parallel.
    returns ({idx: 'true'|'false'|raw}, errors)"""
    import concurrent.futures
    ensure_models()
    shards = [items[i:i + shard] for i in range(0, len(items), shard)]
    results, errors = {}, []

    def one(k):
        body = [header]
        for it in shards[k]:
            body.append(render(it))
        return coq_eval("\n".join(body) + "\n", "%s_%d" % (name, k))
    with concurrent.futures.ThreadPoolExecutor(max_workers=16) as ex:
        for k, (rc, out) in enumerate(ex.map(one, range(len(shards)))):
            if rc != 0:
                errors.append(out[-1500:])
            for m in re.finditer(r"=\s*\((\d+),\s*(.*?)\)\s*\n\s*:", out, re.S):
                results[int(m.group(1))] = " ".join(m.group(2).split())
    return results, errors


# ---------------------------------------------------------------- harness + shim
def build_shim():
    os.makedirs(BUILD, exist_ok=True)
    so = os.path.join(BUILD, "vshim.so")
    src = os.path.join(ROOT, "shim", "vshim.c")
    if not os.path.exists(so) or os.path.getmtime(so) < os.path.getmtime(src):
        rc, out = sh(["gcc", "-shared", "-fPIC", "-O2", "-o", so, src, "-ldl"])
        if rc != 0:
            raise RuntimeError("shim build failed: " + out)
    return so


FEATURES = {"default": [], "memfd": ["memfd"], "inprocess": ["inprocess"], "async": ["async"]}


def build_harness(flavour="default", release=False):
    """cargo build of the harness against /repo's current working tree; returns (binary path | None, log)"""
    hdir = os.path.join(ROOT, "harness")
    lock_src = os.path.join(REPO, "Cargo.lock")
    lock_dst = os.path.join(hdir, "Cargo.lock")
    if not os.path.exists(lock_dst):
        open(lock_dst, "w").write(open(lock_src).read())
    tdir = os.path.join(BUILD, "target-" + flavour)
    cmd = ["cargo", "build", "--offline", "--quiet"]
    if release:
        cmd.append("--release")
    if FEATURES[flavour]:
        cmd += ["--features", ",".join(FEATURES[flavour])]
    env = dict(ENV)
    env["CARGO_TARGET_DIR"] = tdir
    rc, out = sh(cmd, cwd=hdir, env=env, timeout=1800)
    binp = os.path.join(tdir, "release" if release else "debug", "vh")
    if rc != 0 or not os.path.exists(binp):
        return None, out
    return binp, out


def run_harness(binp, driver, lines, env_extra=None, shim=True, timeout=600, args=None):
    """run one harness process; returns (json records, shim log lines, rc, raw stderr+stdout tail)"""
    os.makedirs(os.path.join(BUILD, "logs"), exist_ok=True)
    logp = os.path.join(BUILD, "logs", "shim-%d-%d.log" % (os.getpid(), int(time.time() * 1e6) % 10**9))
    env = dict(ENV)
    env["VSHIM_LOG"] = logp
    if shim:
        env["LD_PRELOAD"] = build_shim()
    env["RUST_BACKTRACE"] = "0"
    if env_extra:
        env.update({k: str(v) for k, v in env_extra.items()})
    try:
        p = subprocess.run([binp, driver] + (args or []), input="\n".join(lines) + "\n", env=env, timeout=timeout,
                           stdout=subprocess.PIPE, stderr=subprocess.PIPE, text=True)
        rc, so, se = p.returncode, p.stdout, p.stderr
    except subprocess.TimeoutExpired as ex:
        rc, so, se = -9, (ex.stdout or b"").decode() if isinstance(ex.stdout, bytes) else (ex.stdout or ""), "TIMEOUT"
    recs = []
    for ln in so.splitlines():
        ln = ln.strip()
        if ln.startswith("{"):
            try:
                recs.append(json.loads(ln))
            except Exception:
                pass
    trace = []
    if os.path.exists(logp):
        trace = parse_log(logp)
        os.unlink(logp)
    return recs, trace, rc, (se or "")[-2000:]


def parse_log(path):
    out = []
    for ln in open(path, errors="replace"):
        parts = ln.split()
        if len(parts) < 4:
            continue
        try:
            rec = {"pid": int(parts[0]), "tid": int(parts[1]), "seq": int(parts[2]), "call": parts[3]}
        except ValueError:
            continue
        if parts[3] == "mark":
            rec["label"] = " ".join(parts[4:])
        else:
            for kvp in parts[4:]:
                if "=" in kvp:
                    k, v = kvp.split("=", 1)
                    try:
                        rec[k] = int(v)
                    except ValueError:
                        rec[k] = v
        out.append(rec)
    out.sort(key=lambda r: r["seq"])
    return Trace(out)


def ops_between(trace, start_label, end_label):
    """calls of the thread that emitted `start_label`, between that mark and `end_label` (same thread)"""
    idx = getattr(trace, "mark_index", None)
    if idx is None:
        idx = {}
        for i, r in enumerate(trace):
            if r["call"] == "mark":
                idx.setdefault(r.get("label"), i)
        try:
            trace.mark_index = idx
        except AttributeError:
            pass
    i = idx.get(start_label)
    if i is None:
        return None
    tid, pid = trace[i]["tid"], trace[i]["pid"]
    out = []
    for q in trace[i + 1:i + 4000]:
        if q["tid"] != tid or q["pid"] != pid:
            continue
        if q["call"] == "mark" and q.get("label") == end_label:
            return out
        out.append(q)
    return out


class Trace(list):
    pass


# ---------------------------------------------------------------- findings, evidence, verdict
def known_findings():
    p = os.path.join(ROOT, "known_findings.json")
    if not os.path.exists(p):
        return []
    return json.load(open(p)).get("findings", [])


class Check:
    """one run of one property's check"""

    def __init__(self, prop, tier, seed):
        self.prop, self.tier, self.seed = prop, tier, seed
        self.t0 = time.time()
        self.violations = []      # dicts: {kind, what, detail...}
        self.known = []
        self.coverage = {"samples": []}
        self.assumptions = []
        self.notes = []

    def sample(self, s, cap=6):
        if len(self.coverage["samples"]) < cap:
            self.coverage["samples"].append(s)

    def failing_input(self, what, detail, key=None):
        """a concrete input on which the property fails on the implementation"""
        for kf in known_findings():
            if kf.get("status") == "open" and kf.get("property") == self.prop and key is not None and kf.get("key") == key:
                self.known.append("%s" % kf.get("what", key))
                return
        self.violations.append({"kind": "failing-input", "what": what, "key": key, "detail": detail})

    def unproved(self, what, detail):
        """a theorem or correspondence that no longer checks, with no failing input found"""
        self.violations.append({"kind": "unproved", "what": what, "detail": detail})

    def finish(self):
        os.makedirs(EVID, exist_ok=True)
        os.makedirs(REPLAY, exist_ok=True)
        wall = time.time() - self.t0
        cov = self.coverage
        ev = {"property_id": self.prop, "tier": self.tier, "seed": self.seed, "level": "proof", "coverage": cov,
              "assumptions": self.assumptions, "wall_s": round(wall, 2), "violations": len(self.violations)}
        if self.notes:
            cov["notes"] = self.notes
        json.dump(ev, open(os.path.join(EVID, self.prop + ".json"), "w"), indent=1)
        for k in sorted(set(self.known)):
            print("KNOWN-FINDING: property=%s %s" % (self.prop, k))
        if not self.violations:
            print("OK property=%s tier=%s wall=%.1fs obligations=%s traces=%s" % (
                self.prop, self.tier, wall, cov.get("obligations"), cov.get("traces_validated_against_impl")))
            return 0
        concrete = [v for v in self.violations if v["kind"] == "failing-input"]
        pick = concrete[0] if concrete else self.violations[0]
        rp = os.path.join(REPLAY, "%s-%s-%d.json" % (self.prop, self.tier, int(time.time())))
        json.dump({"property": self.prop, "kind": pick["kind"], "what": pick["what"], "detail": pick["detail"],
                   "seed": self.seed, "all": self.violations[:20]}, open(rp, "w"), indent=1)
        tail = "" if concrete else " no-failing-input-found"
        print("VIOLATION property=%s replay=%s%s" % (self.prop, rp, tail))
        return 1


def scan_cloexec(chk, trace, where, prop_note):
    """every descriptor the crate creates or receives must be close-on-exec (the shim records the flag of each creating call): a
    descriptor without it is inherited by whatever the process execs and keeps the object behind it alive there"""
    bad = [r for r in trace if r["call"] in ("socketpair", "socket", "accept", "dup", "install", "shm_open", "epoll_create") and r.get("cloexec") == 0]
    if bad:
        chk.failing_input("%s: a descriptor was created without close-on-exec (%s); %s" % (where, {k: bad[0].get(k) for k in ("call", "fd", "a", "b")}, prop_note),
                          {"calls": bad[:4]}, key="cloexec:%s:%s" % (where, bad[0]["call"]))
    return len(bad)


def proof_stage(chk, prop, extra_targets=()):
    """translate, build the property's cone, audit.  Records coverage; returns True if everything checks."""
    with Lock("coq"):
        summ = translate()
        if summ.get("fallback"):
            chk.notes.append("translator fallback (pinned definition kept, tie falls back to the behavioural comparison): %s"
                             % json.dumps(summ["fallback"]))
        ok, out = coq_build(["props/%s.vo" % prop] + list(extra_targets))
        audit = coq_audit(prop) if ok else {"ok": False, "theorems": [], "closed": 0, "axioms": [], "log": ""}
    bad = coq_forbidden()
    files = deps_of("props/%s.v" % prop)
    n = count_proved(files)
    cov = chk.coverage
    cov["obligations"] = max(n, 1)
    cov["discharged"] = n if (ok and audit["ok"] and not bad) else 0
    cov["checker_cmd"] = "make -C /verif/coq props/%s.vo && coqc props/%s.v (Print Assumptions) ; coq 8.16.1" % (prop, prop)
    cov["trusted_base"] = TRUSTED_BASE
    cov["theorems"] = audit.get("theorems", [])
    cov["print_assumptions"] = {"closed": audit.get("closed"), "axioms": audit.get("axioms")}
    cov["coq_files"] = files
    cov["translator"] = {"translated": summ.get("translated"), "fallback": summ.get("fallback")}
    if not ok:
        m = re.findall(r'File "([^"]+)", line (\d+).*?\n(Error:.*?)(?:\n\n|\nmake)', out, re.S)
        chk.proof_error = {"make_log": out[-2500:], "first_error": m[0] if m else None}
        return False
    if not audit["ok"] or bad:
        chk.proof_error = {"audit": audit, "forbidden": bad}
        return False
    if chk.tier == "thorough":
        # independent re-check of the compiled files and everything they depend on
        rc, out = sh(["timeout", "1200", "coqchk", "-silent", "-o"] + COQ_FLAGS + ["IPC.%s" % prop], cwd=COQ, timeout=1300)
        m = re.search(r"\* Axioms:\s*(.*?)\n\s*\n", out, re.S)
        axioms = (m.group(1).strip() if m else "?")
        cov["coqchk"] = {"rc": rc, "axioms": axioms}
        if rc != 0 or axioms != "<none>":
            chk.proof_error = {"coqchk": out[-2000:]}
            return False
    chk.proof_error = None
    return True
