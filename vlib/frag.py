"""frag driver side of the checks for C01, C13, C15, C18: case grids, trace projection, oracle, correspondence."""
import itertools
import random

from . import common as C

DEFAULT_S = 212992  # what this kernel reports; only used to place boundary lengths


def fs(S):
    return S - 32


def ffs(S):
    return ((S - 40) // 8) * 8


ERRNO_RES = {105: "SNoBufs", 32: "SPipe", 104: "SPipe", 4: "SPipe"}   # SPipe: any error other than ENOBUFS


def outcome_of(send):
    if send == "Ok":
        return "Ok"
    if send.startswith("Err("):
        try:
            e = int(send[4:-1])
        except ValueError:
            return None
        return {105: "ErrNoBufs", 32: "ErrPipe", 104: "ErrPipe", 4: "ErrPipe", 90: "ErrTooMany"}.get(e)
    return None


def project_send(ops):
    """sender-thread calls of one send() -> list of Coq oev terms"""
    shared = tx = rx = None
    out = []
    for r in ops:
        c = r["call"]
        if c == "socketpair":
            out.append("OSocketpair")
            tx, rx = r["a"], r["b"]
        elif c == "sendmsg":
            if shared is None:
                shared = r["fd"]
            res = "SOk" if r["res"] > 0 else ERRNO_RES.get(r.get("errno"))
            if r["fd"] == shared and res:
                out.append("OSendmsg %d %d %d %s" % (r["bytes"], r["hdr"], r["rights"], res))
            else:
                out.append("OOther")
        elif c == "send":
            res = "SOk" if r["res"] > 0 else ERRNO_RES.get(r.get("errno"))
            if r["fd"] == tx and res:
                out.append("OSend %d %s" % (r["bytes"], res))
            else:
                out.append("OOther")
        elif c == "close":
            if r["fd"] == rx and rx is not None:
                out.append("OCloseRx")
            elif r["fd"] == tx and tx is not None:
                out.append("OCloseTx")
    # the two ends of the dedicated pair are released when send() returns: their order relative to each other is
    # irrelevant to every property (trace equivalence of DESIGN.md 4.2): canonical order rx, tx
    for i in range(len(out) - 1):
        if out[i] == "OCloseTx" and out[i + 1] == "OCloseRx":
            out[i], out[i + 1] = "OCloseRx", "OCloseTx"
    return out


def project_recv(ops):
    """receiver-thread calls of one recv() -> (cap, ctl, got, rights, reads) of the FIRST message read"""
    first = None
    reads = []
    n_recvmsg = 0
    for r in ops:
        if r["call"] == "recvmsg":
            n_recvmsg += 1
            if first is None:
                first = r
        elif r["call"] == "recv" and n_recvmsg == 1:
            reads.append((r["cap"], max(r["res"], 0)))
    if first is None:
        return None
    return {"cap": first["cap"], "ctl": first["ctlcap"], "got": first["res"], "rights": first["rights"], "reads": reads,
            "n_recvmsg": n_recvmsg, "cloexecflag": first.get("cloexecflag"), "ctrunc": first.get("ctrunc"), "trunc": first.get("trunc")}


def faults_term(pat):
    return "[" + "; ".join("FNoBufs" if ch == "1" else ("FPipe" if ch in "234" else "FOk") for ch in pat) + "]"


def run_cases(binp, S, cases, flavour="default", shim=True, timeout=900):
    """cases: list of dict(id,len,nsend,nrecv,nshm,faults,level). S None = real default.
    returns list of dict(case, rec, send_obs, recv_obs)"""
    lines = []
    for c in cases:
        lines.append("id=%d len=%d nsend=%d nrecv=%d nshm=%d faults=%s level=%s%s" % (
            c["id"], c["len"], c.get("nsend", 0), c.get("nrecv", 0), c.get("nshm", 0), c.get("faults", ""), c.get("level", "platform"),
            (" prefail=1" if c.get("prefail") else "") + ((" rintr=%d" % c["rintr"]) if c.get("rintr") else "") + (" samereg=1" if c.get("samereg") else "") + (" late=1" if c.get("late") else "")))
    env = {}
    if S is not None:
        env["VSHIM_SNDBUF"] = S
    recs, trace, rc, err = C.run_harness(binp, "frag", lines, env_extra=env, shim=shim, timeout=timeout)
    hello = next((r for r in recs if r.get("kind") == "hello"), {})
    aborted = any(r.get("kind") == "aborted" for r in recs)
    by_id = {r["id"]: r for r in recs if r.get("kind") == "frag"}
    out = []
    for c in cases:
        rec = by_id.get(c["id"])
        if rec is None and aborted:
            continue  # skipped after two hangs in this process; the hangs themselves are reported
        item = {"case": dict(c, S=S if S is not None else DEFAULT_S, flavour=flavour), "rec": rec, "send_obs": None, "recv_obs": None,
                "hello": hello, "crashed": rec is None, "stderr": err if rec is None else ""}
        if rec is not None and trace:
            so = C.ops_between(trace, "send %d" % c["id"], "endsend %d" % c["id"])
            ro = C.ops_between(trace, "recv %d" % c["id"], "endrecv %d" % c["id"])
            if so is not None:
                item["send_obs"] = project_send(so)
            if ro is not None:
                item["recv_obs"] = project_recv(ro)
        out.append(item)
    return out


def wire_len(c, rec):
    return rec.get("wire_len", c["len"]) if rec else c["len"]


def nfds_of(c):
    return c.get("nsend", 0) + c.get("nrecv", 0) + c.get("nshm", 0)


def oracle(chk, item, require_ok):
    """property text evaluated directly on the implementation's outcome (independent of the model).
    Returns a failure description or None."""
    c, rec = item["case"], item["rec"]
    if item["crashed"]:
        return "harness process died or produced no record: %s" % item["stderr"][-300:]
    rv = rec["recv"]
    if rec.get("prefail_failed") is False:
        return "a send whose serialisation fails reported success"
    if rv.get("hang"):
        return "receiver blocked for ever (watchdog) after send=%s" % rec["send"]
    if c.get("rintr") and "err" in rv:
        # a read interrupted by a signal may fail the receive (and with it a send that is still in progress: the dedicated channel
        # goes away); what it must not do is hand out a payload the transport never wrote
        return None
    if rec["send"] == "Ok":
        if "err" in rv:
            return "send reported success but the receiver got an error: %s" % rv["err"]
        if not rv.get("equal") or rv.get("len") != c["len"]:
            return "payload differs: sent %d bytes, received %s bytes, equal=%s" % (c["len"], rv.get("len"), rv.get("equal"))
        if rv.get("nchannels") != c.get("nsend", 0) + c.get("nrecv", 0) or rv.get("nregions") != c.get("nshm", 0):
            return "attachments lost: sent %d channels + %d regions, received %s + %s" % (
                c.get("nsend", 0) + c.get("nrecv", 0), c.get("nshm", 0), rv.get("nchannels"), rv.get("nregions"))
        if not rv.get("probes_ok"):
            return "an attachment arrived but is not the endpoint/region that was sent (probe failed)"
    else:
        if require_ok:
            return "send failed (%s) although nothing should prevent it" % rec["send"]
        if rec.get("followup_ok") is not True:
            return "after a failed send (%s) the channel was no longer usable" % rec["send"]
        if "err" in rv:
            return "after a failed send (%s) the receiver got an error instead of the next message: %s" % (rec["send"], rv["err"])
        if not rv.get("equal"):
            return "after a failed send (%s) the receiver obtained something other than the next message (len %s)" % (rec["send"], rv.get("len"))
    fb, fa = rec.get("fds_before"), rec.get("fds_after")
    if fb is not None and fa is not None and fa != fb:
        return "descriptor count changed across the case: %d -> %d" % (fb, fa)
    return None


def render_check(item):
    """Coq term (bool) for one item, or None when there is no trace to compare"""
    c, rec = item["case"], item["rec"]
    if rec is None or item["send_obs"] is None:
        return None
    if c.get("rintr") and rec["send"] != "Ok":
        return None      # the receiver gave up after its interrupted read and the send in progress lost its peer: not a run of Frag.send with the given oracle
    o = outcome_of(rec["send"])
    if o is None:
        return "false"
    L, n, S = wire_len(c, rec), nfds_of(c), c["S"]
    ft = faults_term(c.get("faults", ""))
    t = "check_send %d %d %d %s %s [%s]" % (S, L, n, ft, o, "; ".join(item["send_obs"]))
    ro = item["recv_obs"]
    if rec["send"] == "Ok" and ro is not None and ro["n_recvmsg"] == 1 and not c.get("rintr"):
        t = "(%s) && check_recv %d %d %d %s %d %d %d %d [%s]" % (
            t, S, L, n, ft, ro["cap"], ro["ctl"], ro["got"], ro["rights"],
            "; ".join("(%d, %d)" % p for p in ro["reads"]))
    return t


HEADER = ("From Coq Require Import ZArith List Bool.\nFrom IPC Require Import U64 Params Frag FragCheck.\n"
          "Import ListNotations.\nOpen Scope Z_scope.\n")


def correspond(items, name):
    """evaluate the model on every traced item; returns (n_compared, mismatching items, errors)"""
    todo = [(i, render_check(it)) for i, it in enumerate(items)]
    todo = [(i, t) for i, t in todo if t is not None]
    if not todo:
        return 0, [], []
    res, errors = C.coq_eval_sharded(HEADER, todo, lambda p: "Eval vm_compute in (%d, %s)." % p, name)
    bad = [items[i] for i, _ in todo if res.get(i) != "true"]
    return len(todo), bad, errors


def model_view(item):
    """what the model prescribes for a mismatching item (for the replay file)"""
    c, rec = item["case"], item["rec"]
    L, n, S = wire_len(c, rec), nfds_of(c), c["S"]
    ft = faults_term(c.get("faults", ""))
    rc, out = C.coq_eval(HEADER + "Eval vm_compute in model_send %d %d %d %s.\nEval vm_compute in model_recv %d %d %d %s.\n"
                         % (S, L, n, ft, S, L, n, ft), "view")
    return " ".join(out.split())[:1500]


# ------------------------------------------------------------------ grids
def boundary_lengths(S, dense):
    cap, f = ffs(S), fs(S)
    ds = range(-16, 17) if dense else (-16, -9, -8, -7, -1, 0, 1, 7, 8, 9, 16)
    L = {0, 1, 7, 8, 9}
    for k in range(1, 5):
        for base in (k * cap, k * f, cap + (k - 1) * f, k * (cap + 8)):
            for d in ds:
                if base + d >= 0:
                    L.add(base + d)
    return sorted(L)


def shape_lengths(S):
    """the five C13 shapes: <=2000 B, one packet >2000 B, 2, 3 and 6 packets"""
    cap, f = ffs(S), fs(S)
    return [1500, min(cap, 3000) if cap > 2000 else cap, cap + f // 2, cap + f + f // 3, cap + 4 * f + 100]
