"""api driver side (C19): programs over the whole public API - channels with embedded endpoints and regions, receiver sets,
one-shot servers.  A Python port of the model (used ONLY to generate programs the ideal model defines and to know how many
events a select has to wait for), runner, Coq rendering (model: coq/model/Api.v, checker: ApiCheck.check_api)."""
import re

from . import common as C


class Sim:
    def __init__(self):
        self.chans = []      # {"q": [(data, rights)], "dead": bool}
        self.handles = []    # ("S", c) | ("R", c) | ("M", o) | ("SET", [c|None]) | ("SRV", c, connected) | ("G",)
        self.mem = []
        self.limbo = []      # rights of raw messages a select has handed out and the program has not decoded yet

    def held(self):
        out = list(self.limbo)
        for h in self.handles:
            if h[0] in ("S", "R", "M"):
                out.append(h)
            elif h[0] == "SET":
                out += [("R", c) for c in h[1] if c is not None]
            elif h[0] == "SRV":
                out.append(("R", h[1]))
        return out

    def refs(self, r):
        n = sum(1 for x in self.held() if x == r)
        for ch in self.chans:
            if not ch["dead"]:
                for m in ch["q"]:
                    n += sum(1 for x in m[1] if x == r)
        return n

    def gc(self):
        changed = True
        while changed:
            changed = False
            for c, ch in enumerate(self.chans):
                if not ch["dead"] and self.refs(("R", c)) == 0:
                    ch["dead"], ch["q"] = True, []
                    changed = True
                    break

    def live(self, kind):
        return [i for i, h in enumerate(self.handles) if h[0] == kind]

    def install(self, rights):
        out = []
        for r in rights:
            n = len(self.handles)
            self.handles.append(r)
            out.append("(%s, %d)" % ({"S": "HTx", "R": "HRx", "M": "HMem"}[r[0]], n))
        return "[%s]" % "; ".join(out)

    def pending(self, ms):
        """number of events a select-all on these members will report"""
        n = 0
        for c in ms:
            if c is None:
                continue
            n += len(self.chans[c]["q"])
            if self.refs(("S", c)) == 0:
                n += 1
        return n

    def reach(self, a, b, seen):
        if a == b:
            return True
        if a in seen:
            return False
        seen.add(a)
        for m in self.chans[a]["q"]:
            for r in m[1]:
                if r[0] == "R" and self.reach(r[1], b, seen):
                    return True
        return False

    def acyclic_ok(self, c_target, atts):
        for (a, x) in atts:
            if a == "r":
                cx = self.handles[x][1]
                if cx == c_target or self.reach(cx, c_target, set()):
                    return False
        return True

    def step(self, op):
        k = op[0]
        H = self.handles
        if k == "new":
            c = len(self.chans)
            self.chans.append({"q": [], "dead": False})
            H += [("S", c), ("R", c)]
            return "QNew %d %d" % (len(H) - 2, len(H) - 1)
        if k == "clone":
            H.append(H[op[1]])
            return "QCloned %d" % (len(H) - 1)
        if k == "drop":
            H[op[1]] = ("G",)
            self.gc()
            return "QDropped"
        if k == "send":
            _, h, data, pad, atts = op
            c = H[h][1]
            rights = []
            for (a, x) in atts:
                rights.append(H[x])
                if a == "r":
                    H[x] = ("G",)
            ok = not self.chans[c]["dead"]
            if ok:
                self.chans[c]["q"].append((data, rights))
            self.gc()
            return "QSent" if ok else "QSendErr"
        if k == "recv":
            c = H[op[1]][1]
            if self.chans[c]["q"]:
                data, rights = self.chans[c]["q"].pop(0)
                if data < 0:
                    self.gc()
                    return "QDecodeErr"
                return "QMsg (%d)%%Z %s" % (data, self.install(rights))
            return "QDisconnected" if self.refs(("S", c)) == 0 else "QEmpty"
        if k == "shm":
            o = len(self.mem)
            self.mem.append((op[1], op[2]))
            H.append(("M", o))
            return "QShm %d" % (len(H) - 1)
        if k == "shmclone":
            H.append(H[op[1]])
            return "QShm %d" % (len(H) - 1)
        if k == "shmread":
            l, s = self.mem[H[op[1]][1]]
            return "QShmRead (%d)%%Z (%d)%%Z" % (l, s)
        if k == "setnew":
            H.append(("SET", []))
            return "QSet %d" % (len(H) - 1)
        if k == "setadd":
            s, r = op[1], op[2]
            c = H[r][1]
            H[r] = ("G",)
            H[s] = ("SET", H[s][1] + [c])
            return "QAdded %d" % (len(H[s][1]) - 1)
        if k == "selectall":
            s = op[1]
            ms = list(H[s][1])
            evs = []
            for i, c in enumerate(ms):
                if c is None:
                    continue
                while self.chans[c]["q"]:
                    data, rights = self.chans[c]["q"].pop(0)
                    if data < 0:
                        self.limbo += rights      # still referenced by the raw message until the select is over
                        evs.append("SBad %d" % i)
                    else:
                        evs.append("SMsg %d (%d)%%Z %s" % (i, data, self.install(rights)))
                if self.refs(("S", c)) == 0:
                    evs.append("SClosed %d" % i)
                    ms[i] = None
                    H[s] = ("SET", list(ms))
                    self.gc()
            H[s] = ("SET", ms)
            self.limbo = []
            self.gc()
            return "QSelect [%s]" % "; ".join(evs)
        if k == "server":
            c = len(self.chans)
            self.chans.append({"q": [], "dead": False})
            H.append(("SRV", c, False))
            return "QServer %d" % (len(H) - 1)
        if k == "connect":
            s = op[1]
            c = H[s][1]
            H[s] = ("SRV", c, True)
            H.append(("S", c))
            return "QConnected %d" % (len(H) - 1)
        if k == "accept":
            s = op[1]
            c = H[s][1]
            if not self.chans[c]["q"]:
                # the client connected and every sender is gone without a message: accept fails, the server is consumed
                H[s] = ("G",)
                self.gc()
                return "QDisconnected"
            data, rights = self.chans[c]["q"].pop(0)
            H[s] = ("G",)
            H.append(("R", c))
            rx = len(H) - 1
            return "QAccepted %d (%d)%%Z %s" % (rx, data, self.install(rights))
        raise ValueError(op)


def gen_program(rng, nops, max_chans=6, max_queue=40, p_poison=0.08):
    sim = Sim()
    ops, expect = [], []
    data = 0
    guard = 0
    while len(ops) < nops and guard < nops * 20:
        guard += 1
        tx, rx, mem, sets, srv = sim.live("S"), sim.live("R"), sim.live("M"), sim.live("SET"), sim.live("SRV")
        choices = []
        if len(sim.chans) < max_chans:
            choices += ["new"] * (3 if len(sim.chans) < 2 else 1) + ["server"]
        if tx:
            choices += ["clone"] + ["send"] * 7
        if rx:
            choices += ["recv"] * 4
        if len(sim.mem) < 6:
            choices += ["shm"]
        if mem:
            choices += ["shmclone", "shmread", "shmread"]
        if len(sets) < 2 and len(sim.handles) < 200:
            choices += ["setnew"]
        if sets and rx:
            choices += ["setadd"] * 2
        ready = [s for s in sets if sim.pending(sim.handles[s][1]) > 0]
        if ready:
            choices += ["selectall"] * 4
        conn = [s for s in srv if not sim.handles[s][2]]
        if conn:
            choices += ["connect"] * 2
        acc = [s for s in srv if sim.handles[s][2] and sim.chans[sim.handles[s][1]]["q"] and sim.chans[sim.handles[s][1]]["q"][0][0] >= 0]
        # ... or a server whose client connected and left without sending: no sender reference exists anywhere, nothing is queued
        acc += [s for s in srv if sim.handles[s][2] and not sim.chans[sim.handles[s][1]]["q"] and sim.refs(("S", sim.handles[s][1])) == 0]
        if acc:
            choices += ["accept"] * 3
        alive = tx + rx + mem + sets + srv
        if alive:
            choices += ["drop"] * 2
        if not choices:
            break
        k = rng.choice(choices)
        if k in ("new", "server", "setnew"):
            op = (k,)
        elif k == "clone":
            op = ("clone", rng.choice(tx))
        elif k == "drop":
            op = ("drop", rng.choice(alive))
        elif k == "recv":
            op = ("recv", rng.choice(rx), rng.choice(["recv", "recv", "recvt"]))
        elif k == "shm":
            ln = rng.choice([0, 8, 100, 4096, 4097, 70000])
            op = ("shm", ln, 0 if ln == 0 else 1000 + len(sim.mem) * 7 + rng.randrange(5))
        elif k == "shmclone":
            op = ("shmclone", rng.choice(mem))
        elif k == "shmread":
            op = ("shmread", rng.choice(mem))
        elif k == "setadd":
            op = ("setadd", rng.choice(sets), rng.choice(rx))
        elif k == "selectall":
            s = rng.choice(ready)
            op = ("selectall", s, sim.pending(sim.handles[s][1]))
        elif k == "connect":
            op = ("connect", rng.choice(conn))
        elif k == "accept":
            op = ("accept", rng.choice(acc))
        else:
            h = rng.choice(tx)
            c = sim.handles[h][1]
            if len(sim.chans[c]["q"]) >= max_queue:
                continue
            atts = []
            if rng.random() < 0.55:
                for _ in range(rng.randint(1, 4)):
                    z = rng.random()
                    if z < 0.45 and tx:
                        atts.append(("t", rng.choice(tx)))
                    elif z < 0.7 and mem:
                        atts.append(("m", rng.choice(mem)))
                    else:
                        cand = [x for x in rx if ("r", x) not in atts]
                        if cand:
                            atts.append(("r", rng.choice(cand)))
            if not sim.acyclic_ok(c, atts):
                continue
            data += 1
            d = data
            # a first message to a server is never one the receiver rejects (accept of such a message is outside the model)
            first_to_server = any(hh[0] == "SRV" and hh[1] == c for hh in sim.handles) and not sim.chans[c]["q"]
            if rng.random() < p_poison and not first_to_server:
                d = -(2 * data + rng.randrange(2))
            op = ("send", h, d, rng.choice([0, 0, 0, 10, 500, 9000]), atts)
        exp = sim.step(("recv", op[1]) if op[0] == "recv" else op)
        ops.append(op)
        expect.append(exp)
    return ops, expect


def fixed_programs():
    """deterministic programs that do not depend on the generator's luck: member ids handed out after closures were reported, with
    earlier and later members alive (any number of times); accept of a departed client; a set dropped with traffic pending"""
    scripts = [
        # three members; the first closes and is reported; a fourth is added while the others are alive; traffic on all
        [("new",), ("new",), ("new",), ("new",), ("setnew",), ("setadd", 8, 1), ("setadd", 8, 3), ("setadd", 8, 5), ("drop", 0), "sel8",
         ("setadd", 8, 7), ("send", 2, 11, 0, []), ("send", 4, 12, 0, []), ("send", 6, 13, 0, []), "sel8", ("drop", 2), "sel8", ("new",), ("setadd", 8, 10),
         ("send", 9, 14, 0, []), ("send", 6, 15, 0, []), "sel8", ("drop", 4), ("drop", 6), ("drop", 9), "sel8", ("drop", 8)],
        # the middle member closes first
        [("new",), ("new",), ("new",), ("setnew",), ("setadd", 6, 1), ("setadd", 6, 3), ("setadd", 6, 5), ("send", 2, 21, 0, []), ("drop", 2), "sel6",
         ("new",), ("setadd", 6, 8), ("send", 7, 22, 0, []), ("send", 0, 23, 0, []), ("send", 4, 24, 0, []), "sel6", ("drop", 0), ("drop", 4), ("drop", 7), "sel6", ("drop", 6)],
        # a server whose client leaves without sending; one whose client sends, then leaves
        [("server",), ("connect", 0), ("drop", 1), ("accept", 0), ("server",), ("connect", 2), ("send", 3, 31, 0, []), ("drop", 3), ("accept", 2), ("recv", 4, "recv"), ("drop", 4)],
    ]
    out = []
    for sc in scripts:
        sim = Sim()
        ops, exp = [], []
        for o in sc:
            if isinstance(o, str) and o.startswith("sel"):
                sh = int(o[3:])
                o = ("selectall", sh, sim.pending(sim.handles[sh][1]))
                if o[2] == 0:
                    continue
            e = sim.step(("recv", o[1]) if o[0] == "recv" else o)
            ops.append(o)
            exp.append(e)
        out.append((ops, exp))
    return out


def op_line(op):
    k = op[0]
    if k in ("new", "server", "setnew"):
        return k
    if k in ("clone", "drop", "shmclone", "shmread", "connect", "accept"):
        return "%s %d" % (k, op[1])
    if k == "recv":
        return "%s %d" % (op[2], op[1])
    if k == "shm":
        return "shm %d %d" % (op[1], op[2])
    if k in ("setadd", "selectall"):
        return "%s %d %d" % (k, op[1], op[2])
    _, h, data, pad, atts = op
    return "send %d %d %d %s" % (h, data, pad, ",".join("%s:%d" % a for a in atts) or "-")


def op_term(op):
    k = op[0]
    if k == "new":
        return "ANew"
    if k == "server":
        return "AServer"
    if k == "setnew":
        return "ASetNew"
    one = {"clone": "AClone", "drop": "ADrop", "shmclone": "AShmClone", "shmread": "AShmRead", "connect": "AConnect", "accept": "AAccept", "recv": "ARecv"}
    if k in one:
        return "%s %d" % (one[k], op[1])
    if k == "shm":
        return "AShm (%d)%%Z (%d)%%Z" % (op[1], op[2])
    if k == "setadd":
        return "ASetAdd %d %d" % (op[1], op[2])
    if k == "selectall":
        return "ASelectAll %d" % op[1]
    _, h, data, pad, atts = op
    return "ASend %d (%d)%%Z [%s]" % (h, data, "; ".join({"t": "XTx %d", "r": "XRx %d", "m": "XMem %d"}[a] % x for a, x in atts))


OUT_RE = re.compile(r"Q(New \d+ \d+|Cloned \d+|Dropped|Sent|SendErr|Empty|Disconnected|DecodeErr|Bad|Shm \d+|Set \d+|Added \d+|Server \d+|Connected \d+"
                    r"|ShmRead \(\d+\)%Z \(\d+\)%Z|Msg \(-?\d+\)%Z \[[^\]]*\]|Accepted \d+ \(-?\d+\)%Z \[[^\]]*\]|Select \[.*\])")
BAD_IN_SELECT = re.compile(r"SCorrupt|QErr|QUnknown")


def out_term(s):
    """harness result string -> Coq term, or None if it has no counterpart in the model (then the run counts as a mismatch)"""
    if OUT_RE.fullmatch(s) and not BAD_IN_SELECT.search(s):
        return s
    return None


def run_programs(binp, programs, S=None, shim=False, timeout=900):
    lines = []
    for pid, ops in programs:
        lines.append("prog %s" % pid)
        lines += [op_line(o) for o in ops]
        lines.append("end")
    env = {"VSHIM_SNDBUF": S} if S else {}
    recs, trace, rc, err = C.run_harness(binp, "api", lines, env_extra=env, shim=shim or bool(S), timeout=timeout)
    hang = any(r.get("kind") == "hang" for r in recs)
    by = {}
    for r in recs:
        by.setdefault(str(r.get("prog")), []).append(r)
    res = []
    for pid, ops in programs:
        rs = by.get(str(pid), [])
        start = next((r for r in rs if r["kind"] == "progstart"), None)
        end = next((r for r in rs if r["kind"] == "progend"), None)
        outs = [r["out"] for r in rs if r["kind"] == "op"]
        res.append({"prog": pid, "ops": ops, "outs": outs, "start": start, "end": end, "complete": end is not None and len(outs) == len(ops),
                    "hang": hang and start is not None and end is None, "stderr": err if end is None else ""})
    return res


def run_resilient(binp, programs, S=None, shim=False, timeout=900):
    """a hang or crash ends the harness process: report that program as incomplete and carry on after it"""
    out, todo, guard = [], list(programs), 0
    while todo and guard < 8:
        guard += 1
        res = run_programs(binp, todo, S, shim, timeout)
        k = next((i for i, r in enumerate(res) if not r["complete"]), None)
        if k is None:
            out += res
            break
        out += res[:k + 1]
        todo = todo[k + 1:]
    return out


HEADER = ("From Coq Require Import ZArith List Bool.\nFrom IPC Require Import K Prog Ideal Api ApiCheck.\nImport ListNotations.\n")


def render(item):
    outs = [out_term(s) for s in item["outs"]]
    if any(o is None for o in outs) or len(outs) != len(item["ops"]):
        return None
    return "check_api [%s] [%s]" % ("; ".join(op_term(o) for o in item["ops"]), "; ".join(outs))
