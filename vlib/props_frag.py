"""Checks for C01, C13, C15, C18 (frag driver)."""
import concurrent.futures
import itertools
import random

from . import common as C
from . import frag as F


def build_all(chk, flavours, release=False):
    bins = {}
    with C.Lock("cargo"):
        for fl in flavours:
            b, out = C.build_harness(fl, release=release)
            if b is None:
                chk.unproved("harness build (%s) against /repo failed" % fl, out[-3000:])
            bins[fl] = b
    return bins


def run_parallel(jobs):
    """jobs: list of (binp, S, cases, flavour, shim)"""
    with concurrent.futures.ThreadPoolExecutor(max_workers=12) as ex:
        futs = [ex.submit(F.run_cases, b, S, cases, fl, shim) for (b, S, cases, fl, shim) in jobs]
        out = []
        for f in futs:
            out += f.result()
    return out


def judge(chk, items, require_ok, name, nontrivial):
    """oracle on every item, correspondence on every traced item; fills coverage"""
    fails = []
    for it in items:
        why = F.oracle(chk, it, require_ok(it) if callable(require_ok) else require_ok)
        if why:
            fails.append((it, why))
    for it, why in fails[:10]:
        c = it["case"]
        key = "S=%s len=%d nsend=%d nrecv=%d nshm=%d faults=%s level=%s flavour=%s" % (
            c["S"], c["len"], c.get("nsend", 0), c.get("nrecv", 0), c.get("nshm", 0), c.get("faults", ""), c.get("level"), c.get("flavour"))
        chk.failing_input(why, {"input": c, "observed": it["rec"], "replay": "vh frag  <<< '%s'" % key}, key=key)
    ncmp, bad, errors = F.correspond(items, name)
    cov = chk.coverage
    cov["evaluations"] = cov.get("evaluations", 0) + len(items)
    cov["traces_validated_against_impl"] = cov.get("traces_validated_against_impl", 0) + ncmp
    cov["distinct_nontrivial"] = cov.get("distinct_nontrivial", 0) + len({tuple(sorted((k, str(v)) for k, v in it["case"].items() if k != "id"))
                                                                           for it in items if nontrivial(it)})
    cov["correspondence_mismatches"] = cov.get("correspondence_mismatches", 0) + len(bad)
    if errors:
        chk.unproved("model evaluation (coqc on generated cases) failed", errors[0])
    if bad and not fails:
        it = bad[0]
        chk.unproved("correspondence FragCheck.check_send/check_recv: implementation trace differs from the model on %d of %d cases" % (len(bad), ncmp),
                     {"input": it["case"], "observed_send": it["send_obs"], "observed_recv": it["recv_obs"], "observed_result": it["rec"],
                      "model": F.model_view(it)})
    return fails, bad


def dist(items):
    d = {"levels": {}, "S": {}, "packets": {}, "send_results": {}}
    for it in items:
        c, rec = it["case"], it["rec"]
        d["levels"][c.get("level", "platform") + "/" + c.get("flavour", "default")] = d["levels"].get(c.get("level", "platform") + "/" + c.get("flavour", "default"), 0) + 1
        d["S"][str(c["S"])] = d["S"].get(str(c["S"]), 0) + 1
        n = 1 if c["len"] <= F.ffs(c["S"]) else 2 + max(0, (c["len"] - F.ffs(c["S"]) - 1)) // F.fs(c["S"])
        k = str(n) if n <= 6 else "7+"
        d["packets"][k] = d["packets"].get(k, 0) + 1
        if rec:
            d["send_results"][rec["send"]] = d["send_results"].get(rec["send"], 0) + 1
    return d


def near_boundary(it):
    c = it["case"]
    S, L = c["S"], c["len"]
    cap, f = F.ffs(S), F.fs(S)
    if L > cap:
        return True
    return any(abs(L - b) <= 16 for b in (cap,))


def finish_proof(chk, proof_ok, fails, bad):
    if not proof_ok and not fails:
        chk.unproved("theorems of props/%s.v no longer check against the regenerated model" % chk.prop, chk.proof_error)


# ------------------------------------------------------------------ C01
def check_C01(chk):
    thorough = chk.tier == "thorough"
    rng = random.Random(chk.seed)
    proof_ok = C.proof_stage(chk, "C01")
    bins = build_all(chk, ["default", "memfd", "inprocess"])
    if not all(bins.values()):
        return
    Svals = [4096, 4097, 8192, 65536, None]
    if thorough:
        Svals += sorted({rng.randrange(4096, 212992) for _ in range(35)})
    jobs, nid = [], itertools.count(1)
    for S in Svals:
        Sv = S if S is not None else F.DEFAULT_S
        lens = F.boundary_lengths(Sv, dense=thorough or S in (4096, None))
        lens += [rng.randrange(0, 6 * Sv) for _ in range(12)]
        cases = []
        for L in lens:
            k = next(nid)
            cases.append({"id": k, "len": L, "nsend": k % 3, "nrecv": (k // 3) % 2, "nshm": (k // 7) % 2, "level": "platform"})
        for L in lens[::5]:
            cases.append({"id": next(nid), "len": L, "level": "bytes"})
        for L in lens[::7]:
            k = next(nid)
            # every second typed message follows, on the same thread, a send whose serialisation failed half-way
            cases.append({"id": k, "len": L, "nsend": k % 2, "nrecv": k % 3 == 0 and 1 or 0, "nshm": k % 2, "level": "typed", "prefail": (k // 2) % 2})
            if k % 5 == 0:
                # a value holding several regions with byte-identical contents
                cases.append({"id": next(nid), "len": L, "nsend": 1, "nrecv": 0, "nshm": 2 + k % 3, "level": "typed", "samereg": 1})
            if k % 5 == 1:
                # ... and one holding several regions of DIFFERENT lengths and contents, next to endpoints: each at its own position
                cases.append({"id": next(nid), "len": L, "nsend": 1 + k % 2, "nrecv": k % 2, "nshm": 2 + k % 4, "level": "typed"})
        if S == 4096:
            # values whose endpoints and regions TOGETHER exceed what one message carries although neither kind does on its own: refused
            # whole (an accepted value arrives complete - there is no in-between)
            for ns, nm in ((40, 40), (64, 1), (33, 32), (1, 64)):
                cases.append({"id": next(nid), "len": 100, "nsend": ns, "nrecv": 0, "nshm": nm, "level": "typed"})
        # a few transient-refusal patterns too: "does not depend on how the transport happens to split the payload"
        for pat in ("1", "01", "001", "0101", "2", "02", "002", "012", "0102", "03", "004", "0013"):
            for L in (lens[len(lens) // 2], lens[-1], F.ffs(Sv) + 3 * F.fs(Sv) + 11):
                cases.append({"id": next(nid), "len": L, "nsend": 1, "nrecv": 0, "nshm": 1, "faults": pat, "level": "platform"})
        for k in (1, 2):
            cases.append({"id": next(nid), "len": F.ffs(Sv) + 3 * F.fs(Sv) + 11, "nsend": 0, "nrecv": 0, "nshm": 0, "rintr": k, "level": "platform"})
        jobs.append((bins["default"], S, cases, "default", True))
        if S in (4096, None):
            sub = [dict(c, id=next(nid)) for c in cases if c["level"] != "platform"][:60]
            jobs.append((bins["memfd"], S, sub, "memfd", True))
    if thorough:
        big = [{"id": next(nid), "len": L, "level": lv} for L in (1 << 20, 16 << 20, 64 << 20, (64 << 20) - 17) for lv in ("platform", "bytes")]
        jobs.append((bins["default"], None, big, "default", True))
    inproc = [{"id": next(nid), "len": L, "nsend": 1, "nrecv": 1, "nshm": 1 + (L % 3 if lv == "typed" else 0), "level": lv, "prefail": L % 2}
              for L in F.boundary_lengths(4096, False)[::3] + [1 << 20] for lv in ("platform", "typed", "bytes")]
    for c in inproc:
        if c["level"] == "bytes":
            c.update(nsend=0, nrecv=0, nshm=0)
    jobs.append((bins["inprocess"], None, inproc, "inprocess", False))
    items = run_parallel(jobs)
    fails, bad = judge(chk, items, lambda it: not it["case"].get("faults") and not it["case"].get("rintr") and F.nfds_of(it["case"]) <= 64, "c01", near_boundary)
    chk.coverage["rule"] = ("frag driver: per effective SO_SNDBUF value S (shim-reported) every length in {0,1,7,8,9} u {k*cap+d, k*fs+d, "
                            "cap+(k-1)*fs+d, k*(cap+8)+d : k=1..4} (d dense for S=4096 and the system default, 11 offsets otherwise) "
                            "plus random lengths, at platform / bytes / typed level, default + memfd + in-process builds; "
                            "non-trivial = multi-packet or within 16 bytes of the one-packet capacity; distinct by (S,len,attachments,level,build)")
    chk.coverage["input_distribution"] = dist(items)
    for it in items[:3] + [i for i in items if i["case"]["len"] > F.ffs(i["case"]["S"])][:3]:
        chk.sample({"input": it["case"], "send_trace": it["send_obs"], "recv_trace": it["recv_obs"], "result": it["rec"] and it["rec"]["send"]})
    chk.assumptions += ["the kernel accepts SEQPACKET packets of S-32 bytes (validated by every traced run: EMSGSIZE would surface as a send error)",
                        "SO_SNDBUF is only ever reported lower than the real value (the kernel then accepts every packet the library builds)"]
    # values whose Deserialize receives (and decodes) ANOTHER message half-way through: the enclosing value's later endpoints and
    # regions must still arrive as sent (nested-receive driver, oracle + TlsRecv model)
    from . import props_codec as PCD
    nfails = []
    ncases, ntodo, nbad = PCD.nestrecv_stage(chk, random.Random(chk.seed + 29), bins["default"], 120 if thorough else 24, nfails, tag="c01n")
    chk.coverage["nested_receive_cases"] = len(ncases)
    fails = fails + nfails
    bad = bad + list(nbad)
    finish_proof(chk, proof_ok, fails, bad)


# ------------------------------------------------------------------ C13
def all_patterns(n):
    return ["".join(p) for p in itertools.product("01", repeat=n)]


def check_C13(chk):
    thorough = chk.tier == "thorough"
    rng = random.Random(chk.seed)
    proof_ok = C.proof_stage(chk, "C13")
    bins = build_all(chk, ["default"])
    if not all(bins.values()):
        return
    Svals = [4096, 16384] + ([8192, 65536, 5000, 32768] if thorough else [])
    pats = all_patterns(10)
    if thorough:
        pats += ["".join(rng.choice("01") for _ in range(14)) for _ in range(2000)]
    jobs, nid = [], itertools.count(1)
    for S in Svals:
        shapes = F.shape_lengths(S)
        for att in (0, 1):
            # split the pattern space over several processes to use the cores
            chunk = 256
            for lo in range(0, len(pats), chunk):
                cases = []
                for p in pats[lo:lo + chunk]:
                    for L in shapes:
                        cases.append({"id": next(nid), "len": L, "nsend": att, "nrecv": 0, "nshm": att, "faults": p, "level": "platform"})
                jobs.append((bins["default"], S, cases, "default", True))
    # the same recovery with the attachment capacity reached (63 and 64 descriptors): a fall-through from the single-packet
    # attempt needs one more slot for the dedicated channel
    fpats = all_patterns(4) + ["".join(rng.choice("01") for _ in range(8)) for _ in range(300 if thorough else 40)]
    for S in Svals:
        shapes = F.shape_lengths(S)
        cases = []
        for (a, b, c) in ((32, 0, 32), (63, 0, 0), (31, 1, 32), (62, 0, 1)):
            for p in fpats:
                for L in shapes:
                    cases.append({"id": next(nid), "len": L, "nsend": a, "nrecv": b, "nshm": c, "faults": p, "level": "platform"})
        for lo in range(0, len(cases), 300):
            jobs.append((bins["default"], S, cases[lo:lo + 300], "default", True))
    # the receiver only looks after the send has returned (S = 4096: six packets fit the real socket buffers): the packets in flight
    # were sized by what the sender believed while it sent - whatever it learned from a refusal must not shrink what the receiver offers
    lcases = []
    for p in all_patterns(4) + ["00001", "000001", "0010001"]:
        for L in F.shape_lengths(4096):
            lcases.append({"id": next(nid), "len": L, "nsend": 1, "nrecv": 0, "nshm": 0, "faults": p, "late": 1, "level": "platform"})
    # and messages sent WITHOUT any refusal right after such sends, in the same process
    for L in F.shape_lengths(4096):
        lcases.append({"id": next(nid), "len": L, "nsend": 0, "nrecv": 0, "nshm": 0, "faults": "", "late": 1, "level": "platform"})
    jobs.append((bins["default"], 4096, lcases, "default", True))
    items = run_parallel(jobs)
    fails, bad = judge(chk, items, False, "c13", lambda it: "1" in it["case"].get("faults", ""))
    chk.coverage["exhaustive"] = True
    chk.coverage["rule"] = ("every ENOBUFS pattern over the first 10 transmission attempts (all 2^10) x 5 shapes (<=2000 B, one packet >2000 B, "
                            "2, 3, 6 packets) x {no attachments, sender+region} x S in %s, plus 56..340 patterns x the same shapes with 63 and 64 attachments (capacity reached: "
                            "a fall-through to fragmentation needs one more descriptor); shim fails exactly the attempts of the pattern; "
                            "non-trivial = at least one injected fault" % Svals)
    chk.coverage["input_distribution"] = dist(items)
    for it in [i for i in items if i["rec"] and i["rec"]["send"] != "Ok"][:2] + [i for i in items if "1" in i["case"]["faults"] and i["rec"] and i["rec"]["send"] == "Ok"][:3]:
        chk.sample({"input": it["case"], "send_trace": it["send_obs"], "recv_trace": it["recv_obs"], "result": it["rec"]["send"]})
    chk.assumptions += ["a transmission refused with ENOBUFS queues nothing (kernel semantics; the shim refuses before the kernel sees the call)"]
    finish_proof(chk, proof_ok, fails, bad)


# ------------------------------------------------------------------ C15
def check_C15(chk):
    thorough = chk.tier == "thorough"
    proof_ok = C.proof_stage(chk, "C15")
    bins = build_all(chk, ["default", "inprocess"])
    if not all(bins.values()):
        return
    S = 4096
    cap, f = F.ffs(S), F.fs(S)
    datas = [0, 10, cap, cap + 1, cap + 2 * f + 5]
    counts = sorted(set(list(range(0, 301, 7)) + list(range(58, 72)) + [253, 254, 255, 300])) if not thorough else list(range(0, 301))
    mixes = [(1, 0, 0), (0, 0, 1), (2, 1, 1)] if thorough else [(2, 1, 1), (1, 0, 0)]
    jobs, nid = [], itertools.count(1)
    cases = []
    for n in counts:
        for mix in mixes:
            tot = sum(mix)
            a = n * mix[0] // tot
            b = n * mix[1] // tot
            c = n - a - b
            for L in datas:
                cases.append({"id": next(nid), "len": L, "nsend": a, "nrecv": b, "nshm": c, "level": "platform"})
    # transient ENOBUFS around the limit (a single-packet message that falls through to fragmentation needs one more descriptor)
    for n in (62, 63, 64, 65):
        for L in datas + [2500]:
            for p in ("1", "01", "11", "101"):
                cases.append({"id": next(nid), "len": L, "nsend": n - n // 2, "nrecv": 0, "nshm": n // 2, "faults": p, "level": "platform"})
    # typed level around the limit
    for n in (62, 63, 64, 65, 66):
        for L in (10, cap + 100):
            cases.append({"id": next(nid), "len": L, "nsend": n - 2, "nrecv": 1, "nshm": 1, "level": "typed"})
    chunk = max(1, len(cases) // 12)
    for lo in range(0, len(cases), chunk):
        jobs.append((bins["default"], S, cases[lo:lo + chunk], "default", True))
    # the in-process transport has no limit of its own: whatever it accepts must arrive complete, however many endpoints a value embeds
    icases = [{"id": next(nid), "len": 100, "nsend": n - n // 3, "nrecv": n // 3, "nshm": 2, "level": "typed"} for n in (10, 64, 65, 200, 255, 256, 257, 300, 700)]
    # ... and values holding more regions than the OS transport could carry in one message: region 64, 65, ... must arrive like the others
    icases += [{"id": next(nid), "len": 100, "nsend": 1, "nrecv": 1, "nshm": n, "level": "typed"} for n in (63, 64, 65, 70, 130)]
    jobs.append((bins["inprocess"], None, icases, "inprocess", False))
    items = run_parallel(jobs)
    fails, bad = judge(chk, items, lambda it: it["case"].get("flavour") == "inprocess" or ("1" not in it["case"].get("faults", "") and F.nfds_of(it["case"]) + (1 if F.wire_len(it["case"], it["rec"]) > cap else 0) <= 64),
                       "c15", lambda it: F.nfds_of(it["case"]) >= 58)
    chk.coverage["rule"] = ("attachment counts %s.. in sender/receiver/region mixtures %s x data lengths {0, small, one packet, +1, multi-packet} at S=4096 "
                            "(platform level) plus typed-level values with 62..66 attachments; non-trivial = 58 or more attachments" % (counts[:3], mixes))
    chk.coverage["input_distribution"] = dist(items)
    for it in [i for i in items if F.nfds_of(i["case"]) in (64, 65)][:4]:
        chk.sample({"input": it["case"], "result": it["rec"] and it["rec"]["send"], "recv": it["rec"] and it["rec"]["recv"]})
    chk.assumptions += ["recvmsg installs at most as many descriptors as the control buffer holds and discards the rest (kernel; MSG_CTRUNC)"]
    # "any value that send accepts arrives with all of its attachments" also for values whose serialisation itself sends values with
    # attachments (every level's own attachments, correctly numbered): script driver shared with C14
    from . import props_codec as PC
    scases, sgot, sfails, stodo, sbad, serrors = PC.script_stage(chk, random.Random(chk.seed + 7), bins["default"], 1200 if thorough else 100, 3, tag="c15script")
    chk.coverage["nested_send_values"] = len(scases)
    chk.coverage["traces_validated_against_impl"] = chk.coverage.get("traces_validated_against_impl", 0) + len(stodo)
    chk.coverage["correspondence_mismatches"] = chk.coverage.get("correspondence_mismatches", 0) + len(sbad)
    if serrors:
        chk.unproved("model evaluation (coqc on generated nested-send cases) failed", serrors[0][-1500:])
    if sbad and not sfails and not fails:
        c, r = sbad[0]
        chk.unproved("correspondence TlsCheck.check_script: attachments of nested / enclosing messages differ from Tls.ipc_send on %d of %d values" % (len(sbad), len(stodo)),
                     {"serializer_program": c["body"], "kinds": c["kinds"], "pre": c["pre"], "observed": r and r["result"]})
    finish_proof(chk, proof_ok, fails + sfails, bad + sbad)


# ------------------------------------------------------------------ C18
def check_C18(chk):
    thorough = chk.tier == "thorough"
    rng = random.Random(chk.seed)
    proof_ok = C.proof_stage(chk, "C18")
    bins = build_all(chk, ["default"])
    if not all(bins.values()):
        return
    jobs, nid = [], itertools.count(1)
    for S in (4096, 8192, None):
        Sv = S or F.DEFAULT_S
        cases = []
        for L in F.boundary_lengths(Sv, dense=False):
            k = next(nid)
            cases.append({"id": k, "len": L, "nsend": (k * 7) % 65 if L % 3 == 0 else k % 4, "nrecv": 0, "nshm": k % 3, "level": "platform"})
        for p in ["1", "01", "011", "0101", "1111", "00100100"]:
            for L in F.shape_lengths(Sv):
                cases.append({"id": next(nid), "len": L, "nsend": 1, "nrecv": 1, "nshm": 1, "faults": p, "level": "platform"})
        # the receiver's k-th read of a follow-up fragment is interrupted by a signal (EINTR injected by the shim): the receive may
        # fail, it must not hand out bytes the transport never wrote
        for k in (1, 2, 3):
            for L in F.shape_lengths(Sv)[2:]:
                cases.append({"id": next(nid), "len": L, "nsend": 1, "nrecv": 0, "nshm": 0, "rintr": k, "level": "platform"})
        for c in cases:
            if c["nsend"] + c["nrecv"] + c["nshm"] > 63:
                c["nsend"] = 63 - c["nrecv"] - c["nshm"]
        jobs.append((bins["default"], S, cases, "default", True))
    items = run_parallel(jobs)
    # zero-length and odd-length regions at every public level
    zrecs, _, zrc, zerr = C.run_harness(bins["default"], "shm", ["zero"], shim=False, timeout=120)
    chk.coverage["zero_length_regions"] = zrecs
    for r in zrecs:
        if not r.get("ok"):
            chk.failing_input("zero-length / odd-length shared memory region misbehaves: %s" % r.get("what"), r, key="shm:" + str(r.get("what")))
    if zrc != 0 or not zrecs:
        chk.failing_input("creating and reading zero-length regions terminated the process (rc=%s): %s" % (zrc, zerr[-400:]),
                          {"rc": zrc, "stderr": zerr[-800:]}, key="shm:zero-length-abort")
    # "received data has exactly the sent length": regions whose length sits just above a huge-page multiple, sent through a channel
    # (the receiver sizes its mapping from the object, the sender from the length it asked for)
    slines = ["case id=%d len=%d nreg=1 clones=%d fill=%d fork=0 pad=0" % (900 + i, L, i % 2, i % 2) for i, L in enumerate([(2 << 20) + 1, (4 << 20) + 4097, (2 << 20) - 1])]
    srecs, _, src, serr = C.run_harness(bins["default"], "shm", slines, shim=False, timeout=300)
    sby = {r["id"]: r for r in srecs if r.get("kind") == "shmcase"}
    for i, L in enumerate([(2 << 20) + 1, (4 << 20) + 4097, (2 << 20) - 1]):
        r = sby.get(900 + i)
        if r is None:
            chk.failing_input("the large-region scenario did not complete: %s" % serr[-200:], {"len": L}, key="c18shm:%d:none" % L)
        elif not r["local_ok"] or not r["arrived_ok"] or r["lens"] != [L]:
            chk.failing_input("a region of %d bytes arrived as a region of %s bytes (contents identical: %s): the bytes beyond the sent length were never written by anybody"
                              % (L, r["lens"], r["arrived_ok"]), {"len": L, "record": r}, key="c18shm:%d" % L)
    chk.coverage["large_region_lengths"] = sorted(r["len"] for r in sby.values())
    # a failing mmap (ENOMEM injected by the shim) must end in a panic or an error - never in a write through a null pointer or in a
    # region whose length / contents differ from what was created or sent
    mrecs, _, mrc, merr = C.run_harness(bins["default"], "shm", ["mmapfail"], shim=True, timeout=120)
    mm = [r for r in mrecs if r.get("kind") == "mmapfail"]
    chk.coverage["mmap_failure_scenarios"] = [(r["what"], r["len"], r["outcome"]) for r in mm]
    if len(mm) < 6:
        chk.failing_input("the failing-mmap scenarios did not complete (rc=%s): %s" % (mrc, merr[-300:]), {"rc": mrc}, key="mmapfail:incomplete")
    # the model (Shm.create_f / clone_f / receive_f with the mapping refused): a panic exactly when something is mapped
    mres, merrs = C.coq_eval_sharded("From Coq Require Import ZArith List Bool.\nFrom IPC Require Import Shm.\nOpen Scope Z_scope.\n",
                                     [(i, "mmapfail_panics %d" % r["len"]) for i, r in enumerate(mm)], lambda p: "Eval vm_compute in (%d, %s)." % p, "c18mmap", shard=40)
    mbad = [r for i, r in enumerate(mm) if (mres.get(i) == "true") != (r["outcome"] in ("panic", "error"))]
    chk.coverage["mmap_failure_model_mismatches"] = len(mbad)
    if merrs:
        chk.unproved("model evaluation (coqc on the failing-mmap cases) failed", merrs[0][-1500:])
    if mbad and all(r["outcome"] in ("panic", "error", "intact") for r in mm):
        chk.unproved("correspondence Shm.mmapfail_panics: outcome of an operation whose mmap fails differs from the model on %d of %d cases" % (len(mbad), len(mm)), {"observed": mbad[0]})
    for r in mm:
        if r["outcome"] not in ("panic", "error", "intact"):
            chk.failing_input("with mmap failing (ENOMEM) %s of a %d-byte region %s" % (r["what"], r["len"],
                              "handed out a region of another length / content" if r["outcome"] == "wrong" else "terminated the process by %s (access through an invalid pointer)" % r["outcome"]),
                              r, key="mmapfail:%s:%d" % (r["what"], r["len"]))
    # a send carrying a region is parked (multi-fragment data, nobody reading); meanwhile another region of the same length is created;
    # then the receiver reads: every handle still reads its own bytes (a mapping must not be given up twice, nor while a handle lives)
    for fl in ("default",):
        plines = ["op=parked id=%d len=%d" % (i + 1, L) for i, L in enumerate((8 << 20, 1 << 20, 4096 * 33))]
        precs, _, prc, perr = C.run_harness(bins[fl], "shm", plines, shim=False, timeout=120)
        pk = [r for r in precs if r.get("kind") == "parked"]
        if len(pk) < len(plines):
            chk.failing_input("the parked-send scenario did not complete on the %s build: %s" % (fl, perr[-300:]), {"build": fl}, key="parked:%s:none" % fl)
        for r in pk:
            if r["code"] != 0:
                what = {4: "the received message / region differs from what was sent", 5: "the receive failed", 6: "the sender's other handle on the region no longer reads its bytes",
                        7: "a region created while the send was parked no longer reads its bytes"}.get(r["code"], "the process was terminated by signal %s" % r["signal"])
                chk.failing_input("a send carrying a %d-byte region was parked (4 MiB of data, receiver not reading yet) while another region of the same length was created, then "
                                  "the receiver read: %s" % (r["len"], what), {"build": fl, "record": r}, key="parked:%s:%d" % (fl, r["len"]))
        chk.coverage.setdefault("parked_send_scenarios", {})[fl] = len(pk)
    # names that do not fit the 108 bytes of sockaddr_un handed to connect(): an error, never a write past the structure
    lrecs, _, lrc, lerr = C.run_harness(bins["default"], "res", ["scen name=connect_long n=4"], shim=False, timeout=120)
    lr = next((r for r in lrecs if r.get("kind") == "scen" and r.get("name") == "connect_long"), None)
    if lr is None:
        chk.failing_input("connect() with names of 107..300 bytes: the process did not survive (rc=%s): %s" % (lrc, lerr[-300:]), {"scenario": "connect_long"}, key="c18:connect_long")
    elif lr.get("notes"):
        chk.failing_input("connect() with names of 107..300 bytes: %s" % lr["notes"][:3], {"record": lr}, key="c18:connect_long:notes")
    chk.coverage["over_long_name_scenarios"] = 0 if lr is None else 1
    fails, bad = judge(chk, items, False, "c18", near_boundary)
    # buffer discipline read off the receiver traces: every kernel write lies inside the offered buffer
    over = [it for it in items if it["recv_obs"] and any(got > want for want, got in it["recv_obs"]["reads"])]
    for it in over[:3]:
        chk.failing_input("kernel returned more bytes than the buffer offered", {"input": it["case"], "recv": it["recv_obs"]},
                          key="over:%s" % it["case"]["len"])
    if thorough:
        asan(chk, items)
    chk.coverage["rule"] = ("message shapes of C01/C13/C15 (boundary lengths, 0..63 attachments, ENOBUFS retries) at S in {4096, 8192, default}: "
                            "receive-buffer sizes and returned byte counts of every recvmsg/recv compared with the model; zero/odd-length regions "
                            "at platform and ipc level; thorough: the same scenarios under AddressSanitizer; non-trivial = multi-packet or at the capacity boundary")
    chk.coverage["input_distribution"] = dist(items)
    for it in [i for i in items if i["recv_obs"] and i["recv_obs"]["reads"]][:3]:
        chk.sample({"input": it["case"], "recv_trace": it["recv_obs"]})
    chk.assumptions += ["memory safety of the compiled unsafe code as such is not exhibited by the model: the theorems cover the index arithmetic "
                        "the unsafe blocks rely on; ASan (thorough) supports the search only"]
    finish_proof(chk, proof_ok, fails, bad)


def asan(chk, items):
    """thorough only: replay a sample of the scenarios under AddressSanitizer (support for the search, not a proof)"""
    import os
    hdir = os.path.join(C.ROOT, "harness")
    env = dict(C.ENV)
    env["CARGO_TARGET_DIR"] = os.path.join(C.BUILD, "target-asan")
    env["RUSTFLAGS"] = env.get("RUSTFLAGS", "") + " -Zsanitizer=address"
    rc, out = C.sh(["cargo", "+nightly", "build", "--offline", "--quiet", "--target", "x86_64-unknown-linux-gnu"], cwd=hdir, env=env, timeout=1800)
    binp = os.path.join(env["CARGO_TARGET_DIR"], "x86_64-unknown-linux-gnu", "debug", "vh")
    if rc != 0 or not os.path.exists(binp):
        chk.notes.append("ASan build unavailable: " + out[-400:])
        return
    cases = [it["case"] for it in items if it["case"]["S"] == 4096][:400]
    lines = ["id=%d len=%d nsend=%d nrecv=%d nshm=%d faults=%s level=%s" % (c["id"], c["len"], c.get("nsend", 0), c.get("nrecv", 0), c.get("nshm", 0), c.get("faults", ""), c.get("level", "platform")) for c in cases]
    recs, _, rc, err = C.run_harness(binp, "frag", lines, env_extra={"VSHIM_SNDBUF": 4096, "ASAN_OPTIONS": "detect_leaks=0"}, shim=True, timeout=1200)
    chk.coverage["asan"] = {"cases": len(cases), "records": len(recs), "rc": rc}
    if "AddressSanitizer" in err:
        chk.failing_input("AddressSanitizer report", {"stderr": err[-1500:]}, key="asan")
