"""prog driver side: program generator (with a Python port of the reference-counting kernel, used ONLY to
generate mostly-valid programs), runner, ledger projection, Coq term rendering."""
import random
import re

from . import common as C


class Sim:
    """K + Ideal in Python, for generation only (the comparison uses the Coq models)."""

    def __init__(self):
        self.chans = []      # {"q": [(data, rights)], "dead": bool}
        self.handles = []    # ("S", c) | ("R", c) | ("G",)

    def refs(self, r):
        n = sum(1 for h in self.handles if h == r)
        for ch in self.chans:
            if not ch["dead"]:
                for m in ch["q"]:
                    n += sum(1 for x in m[1] if x == r)
        return n

    def gc(self):
        changed = True
        while changed:
            changed = False
            for c, ch in enumerate(self.chans):
                if not ch["dead"] and self.refs(("R", c)) == 0:
                    ch["dead"], ch["q"] = True, []
                    changed = True
                    break

    def live(self, kind):
        return [i for i, h in enumerate(self.handles) if h[0] == kind]

    def step(self, op):
        """executes op; returns the outcome string the public API is expected to produce"""
        k = op[0]
        if k == "new":
            c = len(self.chans)
            self.chans.append({"q": [], "dead": False})
            self.handles += [("S", c), ("R", c)]
            return "RNew %d %d" % (len(self.handles) - 2, len(self.handles) - 1)
        elif k == "clone":
            self.handles.append(self.handles[op[1]])
            return "RCloned %d" % (len(self.handles) - 1)
        elif k == "drop":
            self.handles[op[1]] = ("G",)
            self.gc()
            return "RDropped"
        elif k == "send":
            _, h, data, pad, atts = op[:5]
            poison = op[5] if len(op) > 5 else ""
            c = self.handles[h][1]
            rights = []
            for (a, x) in atts:
                rights.append(self.handles[x])
                if a == "r":
                    self.handles[x] = ("G",)
            ok = not self.chans[c]["dead"]
            if ok:
                self.chans[c]["q"].append((data, rights, poison))
            self.gc()
            return "RSent" if ok else "RSendErr"
        elif k == "recv":
            c = self.handles[op[1]][1]
            if self.chans[c]["q"]:
                data, rights, poison = self.chans[c]["q"].pop(0)
                n = len(self.handles)
                if poison:
                    # decoding fails: the message is consumed, what it carried is released, nothing reaches the program
                    self.handles += [("G",)] * len(rights)
                    self.gc()
                    return "RDecodeErr"
                self.handles += rights
                return "RMsg %d [%s]" % (data, "; ".join("(%s, %d)" % ("KTx" if r[0] == "S" else "KRx", n + i) for i, r in enumerate(rights)))
            return "RDisconnected" if self.refs(("S", c)) == 0 else "REmpty"

    def acyclic_ok(self, c_target, atts):
        """refuse to embed a receiver into a message that travels towards itself (cycles are excluded by the properties)"""
        # channel graph: edge c -> c' if RR c' is queued in c.  Sending RR x into c_target creates x <- c_target.
        def reach(a, b, seen):
            if a == b:
                return True
            if a in seen:
                return False
            seen.add(a)
            for m in self.chans[a]["q"]:
                for r in m[1]:
                    if r[0] == "R" and reach(r[1], b, seen):
                        return True
            return False
        for (a, x) in atts:
            if a == "r":
                cx = self.handles[x][1]
                if cx == c_target or reach(cx, c_target, set()):
                    return False
        return True


def recv_op(sim, h, variant):
    """receive op with the hint the harness and the renderer need when the head message cannot be decoded"""
    c = sim.handles[h][1]
    q = sim.chans[c]["q"]
    if q and q[0][2]:
        data, rights, _ = q[0]
        return ("recv", h, variant, {"k": len(rights), "data": data, "kinds": ["KTx" if r[0] == "S" else "KRx" for r in rights], "n0": len(sim.handles)})
    return ("recv", h, variant, None)


def gen_program(rng, nops, max_chans=6, max_queue=40, p_att=0.5, p_poison=0.0):
    sim = Sim()
    ops, expect = [], []
    data = 0
    while len(ops) < nops:
        tx, rx = sim.live("S"), sim.live("R")
        choices = []
        if len(sim.chans) < max_chans:
            choices += ["new"] * (3 if len(sim.chans) < 2 else 1)
        if tx:
            choices += ["clone"] + ["send"] * 6
        if rx:
            choices += ["recv"] * 5
        if tx or rx:
            choices += ["drop"] * 2
        if not choices:
            break  # channel budget used up and every handle dropped
        k = rng.choice(choices)
        if k == "new":
            op = ("new",)
        elif k == "clone":
            op = ("clone", rng.choice(tx))
        elif k == "drop":
            op = ("drop", rng.choice(tx + rx))
        elif k == "recv":
            op = recv_op(sim, rng.choice(rx), rng.choice(["recv", "recv", "recvt"]))
        else:
            h = rng.choice(tx)
            c = sim.handles[h][1]
            if len(sim.chans[c]["q"]) >= max_queue:
                continue
            atts = []
            if rng.random() < p_att:
                for _ in range(rng.randint(1, 4)):
                    if rng.random() < 0.6 and tx:
                        atts.append(("t", rng.choice(tx)))
                    else:
                        cand = [x for x in rx if ("r", x) not in atts]
                        if cand:
                            atts.append(("r", rng.choice(cand)))
            if not sim.acyclic_ok(c, atts):
                continue
            data += 1
            op = ("send", h, data, rng.choice([0, 0, 0, 10, 500]), atts, rng.choice("el") if rng.random() < p_poison else "")
        exp = sim.step(("recv", op[1]) if op[0] == "recv" else op)
        ops.append(op)
        expect.append(exp)
    return ops, expect


def op_line(op):
    k = op[0]
    if k == "new":
        return "new"
    if k in ("clone", "drop"):
        return "%s %d" % (k, op[1])
    if k == "recv":
        hint = op[3] if len(op) > 3 else None
        return "%s %d%s" % (op[2], op[1], " %d" % hint["k"] if hint else "")
    _, h, data, pad, atts = op[:5]
    return "send %d %d %d %s%s" % (h, data, pad, ",".join("%s:%d" % a for a in atts) or "-", (" " + op[5]) if len(op) > 5 and op[5] else "")


def op_term(op):
    k = op[0]
    if k == "new":
        return "ONew"
    if k == "clone":
        return "OClone %d" % op[1]
    if k == "drop":
        return "ODrop %d" % op[1]
    if k == "recv":
        return "ORecv %d" % op[1]
    _, h, data, pad, atts = op[:5]
    return "OSend %d (%d)%%Z [%s]" % (h, data, "; ".join(("ATx %d" if a == "t" else "ARx %d") % x for a, x in atts))


def out_term(s):
    """harness outcome string -> Coq outcome term (None if it has no counterpart: the run then counts as a mismatch)"""
    if re.fullmatch(r"RNew \d+ \d+|RCloned \d+|RDropped|RSent|RSendErr|REmpty|RDisconnected|RBad", s):
        return s
    m = re.fullmatch(r"RMsg (\d+) \[(.*)\]", s)
    if m and "KShm" not in s:
        return "RMsg (%s)%%Z [%s]" % (m.group(1), m.group(2))
    return None


def project_ledger(calls):
    """calls of one program (marks included) -> Coq call terms with descriptor IDENTITIES (numbered 3, 4, ... in
    order of creation, like the model) instead of recycled numbers.  The per-message dedicated fragment channel of
    a multi-packet message (socketpair inside a send, its receiving end installed and read with recv(2) inside a
    receive) belongs to the packet level (Frag/Conc) and is filtered out here."""
    # split into operations
    groups, cur = [], []
    for r in calls:
        if r["call"] == "mark":
            if r.get("label", "").startswith("op "):
                cur = []
                groups.append(cur)
            continue
        cur.append(r)
    ident, nxt, out = {}, 3, []
    for g in groups:
        ded = set()
        for r in g:
            if r["call"] == "recv":
                ded.add(r["fd"])
        skip_pairs = set()
        if any(r["call"] == "send" for r in g) or any(r["call"] == "socketpair" for r in g) and any(r["call"] == "sendmsg" for r in g):
            for r in g:
                if r["call"] == "socketpair":
                    skip_pairs |= {r["a"], r["b"]}
        pending_installs = []
        for r in g:
            c = r["call"]
            if c == "socketpair":
                if r["a"] in skip_pairs:
                    continue
                ident[r["a"]], ident[r["b"]] = nxt, nxt + 1
                out.append("CSocketpair %d %d" % (nxt, nxt + 1))
                nxt += 2
            elif c == "install":
                if r["fd"] not in ded:
                    pending_installs.append(r["fd"])
            elif c == "recvmsg":
                f = ident.get(r["fd"], 0)
                res = 1 if r["res"] > 0 else (0 if r["res"] == 0 else 2)
                out.append("CRecvmsg %d %d" % (f, res))
                for nf in pending_installs:
                    ident[nf] = nxt
                    out.append("CInstall %d" % nxt)
                    nxt += 1
                pending_installs = []
            elif c == "poll":
                if r["res"] == 0:
                    out.append("CRecvmsg %d 2" % ident.get(r["fd"], 0))
            elif c == "sendmsg":
                nr = r["rights"] - (1 if skip_pairs else 0)
                out.append("CSendmsg %d %d %s" % (ident.get(r["fd"], 0), nr, "true" if r["res"] > 0 else "false"))
            elif c == "close":
                if r["fd"] in skip_pairs or r["fd"] in ded:
                    skip_pairs.discard(r["fd"])
                    ded.discard(r["fd"])
                    continue
                if r["res"] == 0 and r["fd"] in ident:
                    out.append("CClose %d" % ident.pop(r["fd"]))
                else:
                    out.append("CBadClose %d" % ident.get(r["fd"], 0))
    return out


def run_programs(binp, programs, S=None, shim=True, timeout=900):
    """programs: list of (pid, ops). returns list of dict(prog, ops, outs, counts, ledger, end)"""
    lines = []
    for pid, ops in programs:
        lines.append("prog %s" % pid)
        lines += [op_line(o) for o in ops]
        lines.append("end")
    env = {"VSHIM_SNDBUF": S} if S else {}
    recs, trace, rc, err = C.run_harness(binp, "prog", lines, env_extra=env, shim=shim, timeout=timeout)
    res = []
    by_prog = {}
    for r in recs:
        by_prog.setdefault(str(r.get("prog")), []).append(r)
    for pid, ops in programs:
        rs = by_prog.get(str(pid), [])
        start = next((r for r in rs if r["kind"] == "progstart"), None)
        end = next((r for r in rs if r["kind"] == "progend"), None)
        outs = [r["out"] for r in rs if r["kind"] == "op"]
        counts = [r["fds"] - start["fds"] for r in rs if r["kind"] == "op"] if start else []
        ledger, nocloexec = None, []
        if trace and start is not None:
            cut = C.ops_between(trace, "op %s 0" % pid, "endop %s %d" % (pid, len(ops) - 1)) or []
            first = next((q for q in trace if q["call"] == "mark" and q.get("label") == "op %s 0" % pid), None)
            ledger = project_ledger(([first] if first else []) + cut)
            nocloexec = [q for q in cut if q["call"] in ("socketpair", "install", "dup", "accept", "socket", "shm_open") and q.get("cloexec") == 0]
        res.append({"prog": pid, "ops": ops, "outs": outs, "counts": counts, "ledger": ledger, "nocloexec": nocloexec, "start": start, "end": end,
                    "complete": end is not None and len(outs) == len(ops), "stderr": err if end is None else ""})
    return res


HEADER = ("From Coq Require Import ZArith List Bool.\nFrom IPC Require Import K Prog Ideal Unix ProgCheck.\n"
          "Import ListNotations.\n")


def render(item, with_trace=True):
    """a receive whose message cannot be decoded is, for the models, the receive followed by dropping every handle it
    installed (nothing the message carried reaches the program; what it carried is released)"""
    ops_t, outs, counts = [], [], []
    for k, o in enumerate(item["ops"]):
        obs = item["outs"][k] if k < len(item["outs"]) else None
        cnt = item["counts"][k] if k < len(item["counts"]) else None
        hint = o[3] if o[0] == "recv" and len(o) > 3 else None
        if obs == "RDecodeErr":
            if not hint:
                return None
            ops_t.append(op_term(o))
            outs.append("RMsg (%d)%%Z [%s]" % (hint["data"], "; ".join("(%s, %d)" % (kd, hint["n0"] + j) for j, kd in enumerate(hint["kinds"]))))
            for j in range(hint["k"]):
                ops_t.append("ODrop %d" % (hint["n0"] + j))
                outs.append("RDropped")
            counts += ["None"] * hint["k"] + ["Some %d" % cnt if cnt is not None else "None"]
            continue
        ops_t.append(op_term(o))
        if obs is not None:
            outs.append(out_term(obs))
        if cnt is not None:
            counts.append("Some %d" % cnt)
    if any(o is None for o in outs):
        return None
    tr = item["ledger"] if (with_trace and item["ledger"] is not None) else None
    term = "let v := check_prog (%s) [%s] [%s] [%s] in (v_unix v, v_ideal v, %s, %s)" % (
        "[" + "; ".join(ops_t) + "]", "; ".join(outs), "; ".join(tr or []), "; ".join(counts),
        "v_trace v" if tr is not None else "true", "v_counts v")
    return term
