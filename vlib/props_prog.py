"""Checks for C03, C04, C11, C19 (prog driver; res driver for C11)."""
import concurrent.futures
import itertools
import os
import random

from . import common as C
from . import frag as F
from . import prog as P
from . import codec as K
from .props_frag import build_all, finish_proof


def make_programs(rng, n, nops, chain=False):
    progs, exps = [], {}
    for i in range(n):
        if chain and i % 3 == 0:
            ops, exp = gen_chain(rng)
        else:
            ops, exp = P.gen_program(rng, nops, max_chans=6, p_att=0.55 if i % 4 != 1 else 0.8, p_poison=0.3 if i % 4 == 1 else 0.0)
        progs.append((i, ops))
        exps[i] = exp
    return progs, exps


def gen_chain(rng):
    """C04: a receiver with a backlog travels over 1..5 hops; messages sent before, between and after the hops"""
    sim = P.Sim()
    ops, exp = [], []

    def do(op):
        exp.append(sim.step(("recv", op[1]) if op[0] == "recv" else op))
        ops.append(op)
    hops = rng.randint(1, 5)
    do(("new",))                      # 0,1: the travelling channel
    data = itertools.count(100)
    for _ in range(rng.randint(0, 20)):
        do(("send", 0, next(data), rng.choice([0, 0, 30]), []))
    cur = 1
    for h in range(hops):
        do(("new",))
        ctx, crx = len(sim.handles) - 2, len(sim.handles) - 1
        pad = rng.choice([0, 0, 9000])
        do(("send", ctx, next(data), pad, [("r", cur)] + ([("t", 0)] if rng.random() < 0.4 else [])))
        for _ in range(rng.randint(0, 3)):
            do(("send", 0, next(data), 0, []))
        n0 = len(sim.handles)
        do(("recv", crx, "recv"))
        cur = n0                     # the transferred receiver is the first new handle
        do(("drop", ctx))
        do(("drop", crx))
    for _ in range(rng.randint(0, 3)):
        do(("send", 0, next(data), 0, []))
    while sim.chans[0]["q"]:
        do(("recv", cur, rng.choice(["recv", "recvb"])))
    do(("recv", cur, "recv"))
    do(("drop", 0))
    # every remaining sender clone that travelled along must be dropped before the channel disconnects
    for i, hd in enumerate(list(sim.handles)):
        if hd == ("S", 0):
            do(("drop", i))
    do(("recv", cur, "recv"))
    return ops, exp


def run_suite(chk, bins, flavours, rng, nprog, nops, S=None, chain=False):
    progs, exps = make_programs(rng, nprog, nops, chain=chain)
    out = {}
    with concurrent.futures.ThreadPoolExecutor(max_workers=6) as ex:
        futs = {}
        for fl in flavours:
            chunks = [progs[i::4] for i in range(4)]
            futs[fl] = [ex.submit(P.run_programs, bins[fl], ch, S if fl != "inprocess" else None, fl != "inprocess") for ch in chunks if ch]
        for fl in flavours:
            res = []
            for f in futs[fl]:
                res += f.result()
            out[fl] = sorted(res, key=lambda r: r["prog"])
    return progs, exps, out


def correspond(items, name, with_trace=True):
    todo = [(i, P.render(it, with_trace=with_trace)) for i, it in enumerate(items)]
    bad_render = [items[i] for i, t in todo if t is None]
    todo = [(i, t) for i, t in todo if t is not None]
    res, errors = C.coq_eval_sharded(P.HEADER, todo, lambda p: "Eval vm_compute in (%d, %s)." % p, name, shard=60)
    bad = [(items[i], res.get(i)) for i, _ in todo if res.get(i) != "(true, true, true, true)"]
    return len(todo), bad, bad_render, errors


def oracle_outcomes(it, exp):
    """API-visible results versus the reference count kept by the generator (independent of the Coq models)"""
    if not it["complete"]:
        return "program did not run to completion (harness died?): %s" % it["stderr"][-300:]
    for k, (a, b) in enumerate(zip(it["outs"], exp)):
        if a != b:
            return "operation %d (%s): implementation answered %s, the reference count says %s" % (k, P.op_line(it["ops"][k]), a, b)
    return None


def oracle_resources(it):
    if it["end"] is None or it["start"] is None:
        return None
    if it["end"]["fds"] != it["end"]["base_fds"]:
        return "after every handle was dropped the process holds %d descriptors instead of %d" % (it["end"]["fds"], it["end"]["base_fds"])
    if it["end"]["maps"] != it["start"]["maps"]:
        return "shared mappings left behind: %s -> %s" % (it["start"]["maps"], it["end"]["maps"])
    if it.get("nocloexec"):
        return "a descriptor created or received by the library is not close-on-exec (an unrelated child would inherit it): %s" % it["nocloexec"][0]
    if it["ledger"] is not None and any(x.startswith("CBadClose") for x in it["ledger"]):
        return "the library closed a descriptor that was not open: %s" % [x for x in it["ledger"] if x.startswith("CBadClose")][:3]
    return None


def report(chk, flavour, it, why, kind):
    ops = [P.op_line(o) for o in it["ops"]]
    chk.failing_input(why, {"build": flavour, "program": ops, "observed_outcomes": it["outs"], "fd_counts": it["counts"]},
                      key="%s:%s:%s" % (kind, flavour, ";".join(ops))[:400])


def base_cov(chk, items, ncmp, nbad, rule):
    cov = chk.coverage
    cov["evaluations"] = len(items)
    cov["operations"] = sum(len(it["ops"]) for it in items)
    cov["traces_validated_against_impl"] = ncmp
    cov["distinct_nontrivial"] = len({";".join(P.op_line(o) for o in it["ops"]) for it in items
                                      if any(o[0] == "send" and o[4] for o in it["ops"])})
    cov["correspondence_mismatches"] = nbad
    cov["rule"] = rule
    kinds = {}
    for it in items:
        for o in it["outs"]:
            k = o.split()[0]
            kinds[k] = kinds.get(k, 0) + 1
    cov["input_distribution"] = {"outcomes": kinds, "programs": len(items)}
    for it in items[:2]:
        chk.sample({"program": [P.op_line(o) for o in it["ops"]][:40], "outcomes": it["outs"][:40]})


def generic_prog_check(chk, prop, flavours, nprog, nops, chain, rule, resources, S=None):
    rng = random.Random(chk.seed)
    proof_ok = C.proof_stage(chk, prop)
    bins = build_all(chk, flavours)
    if not all(bins.values()):
        return None
    progs, exps, out = run_suite(chk, bins, flavours, rng, nprog, nops, S=S, chain=chain)
    fails = []
    for fl in flavours:
        for it in out[fl]:
            why = oracle_outcomes(it, exps[it["prog"]])
            if why is None and resources and fl != "inprocess":
                why = oracle_resources(it)
            if why:
                fails.append((fl, it, why))
    for fl, it, why in fails[:6]:
        report(chk, fl, it, why, prop)
    # all builds must agree with each other
    if len(flavours) > 1:
        for i in range(len(progs)):
            outs = {fl: out[fl][i]["outs"] for fl in flavours if i < len(out[fl])}
            if len({tuple(v) for v in outs.values()}) > 1 and not fails:
                it = out[flavours[0]][i]
                report(chk, "/".join(flavours), it, "the builds disagree on this program: %s" % {k: v[:40] for k, v in outs.items()}, prop)
                fails.append((None, it, "disagree"))
    # model correspondence: default build with ledger + counts, other builds outcomes only
    ncmp, bad, bad_render, errors = correspond(out[flavours[0]], prop.lower(), with_trace=True)
    for fl in flavours[1:]:
        n2, bad2, br2, e2 = correspond([dict(it, ledger=None, counts=[]) if fl == "inprocess" else dict(it, ledger=None) for it in out[fl]],
                                       prop.lower() + fl, with_trace=False) if fl != "inprocess" else (0, [], [], [])
        ncmp += n2
        bad += bad2
        errors += e2
    items = [it for fl in flavours for it in out[fl]]
    base_cov(chk, items, ncmp, len(bad), rule)
    if errors:
        chk.unproved("model evaluation (coqc on generated cases) failed", errors[0][-1500:])
    if (bad or bad_render) and not fails:
        it, verdict = bad[0] if bad else (bad_render[0], "outcome without model counterpart")
        chk.unproved("correspondence ProgCheck.check_prog (unix outcomes, ideal outcomes, descriptor ledger, descriptor counts) = %s on %d of %d programs"
                     % (verdict, len(bad) + len(bad_render), ncmp),
                     {"program": [P.op_line(o) for o in it["ops"]], "observed_outcomes": it["outs"], "observed_ledger": it["ledger"], "fd_counts": it["counts"]})
    finish_proof(chk, proof_ok, fails, bad)
    return bins


def prog_slice(chk, tag, binp, nprog, nops, seed_off=11):
    """a slice of the prog driver for properties whose main driver is another one: histories in which receivers vanish by every
    route the API offers (dropped, moved into a message whose queue dies, carried by a message that is never / cannot be decoded);
    every result against the reference count and the Unix / Ideal models.  Returns (fails, bad)."""
    rng = random.Random(chk.seed + seed_off)
    progs, exps = make_programs(rng, nprog, nops)
    out = sorted([r for i in range(4) for r in (P.run_programs(binp, progs[i::4]) if progs[i::4] else [])], key=lambda r: r["prog"])
    fails = []
    for it in out:
        why = oracle_outcomes(it, exps[it["prog"]])
        if why:
            fails.append(it)
            report(chk, "default", it, why, tag)
            break
    ncmp, bad, bad_render, errors = correspond(out, tag.lower() + "prog", with_trace=True)
    chk.coverage["prog_histories"] = len(out)
    chk.coverage["traces_validated_against_impl"] = chk.coverage.get("traces_validated_against_impl", 0) + ncmp
    chk.coverage["correspondence_mismatches"] = chk.coverage.get("correspondence_mismatches", 0) + len(bad)
    if errors:
        chk.unproved("model evaluation (coqc on generated cases) failed", errors[0][-1500:])
    if (bad or bad_render) and not fails:
        it, verdict = bad[0] if bad else (bad_render[0], "outcome without model counterpart")
        chk.unproved("correspondence ProgCheck.check_prog = %s on %d of %d histories" % (verdict, len(bad) + len(bad_render), ncmp),
                     {"program": [P.op_line(o) for o in it["ops"]], "observed_outcomes": it["outs"]})
    return fails, bad


def check_C03(chk):
    thorough = chk.tier == "thorough"
    generic_prog_check(chk, "C03", ["default", "inprocess"], 1500 if thorough else 120, 200 if thorough else 60, False,
                       "prog driver: random histories of create / clone / send with embedded sender clones and moved receivers / the three receive "
                       "variants / drop handle / drop carrying receiver over <= 6 channels (acyclic embeddings), default and in-process builds; every result is "
                       "compared with (a) a reference count of live handles and in-flight references kept by the generator, (b) the Unix model and (c) the Ideal "
                       "model evaluated by coqc, plus the descriptor ledger; non-trivial = programs with at least one message carrying endpoints", False)
    # races of the final drop with a blocked, timed or polling receive (wake driver)
    bins = build_all(chk, ["default", "inprocess"])
    if all(bins.values()):
        # programs over the whole public API (sets, servers, regions, undecodable messages) against the model Api.v - the tie of the
        # C03_api theorems - on both builds
        api_stage(chk, "C03", bins, ["default", "inprocess"], 300 if thorough else 30, 60, seed_off=71)
        rng = random.Random(chk.seed + 3)
        cases, nid = [], itertools.count(1)
        for _ in range(400 if thorough else 60):
            how = rng.choice(["thread", "thread", "fork", "carrier", "spawn"])
            cases.append({"id": next(nid), "how": how, "mode": rng.choice(["recv", "timed", "poll"]), "delay_us": rng.choice([0, 50, 300, 2000, 9000]),
                          "nmsg": rng.choice([0, 0, 1, 5]), "clones": rng.randint(1, 4) if how in ("thread", "spawn") else 1})
        lines = ["id=%d how=%s mode=%s delay_us=%d nmsg=%d clones=%d" % (c["id"], c["how"], c["mode"], c["delay_us"], c["nmsg"], c["clones"]) for c in cases]
        for fl in ("default", "inprocess"):
            sel = [(l, c) for l, c in zip(lines, cases) if not (fl == "inprocess" and c["how"] in ("fork", "spawn"))]
            chunks = [sel[i::6] for i in range(6)]

            def run(ch, fl=fl):
                recs, _, rc, err = C.run_harness(bins[fl], "wake", [l for l, _ in ch], shim=False, timeout=600)
                return {r["id"]: r for r in recs if r.get("kind") == "wake"}
            got = {}
            with concurrent.futures.ThreadPoolExecutor(max_workers=6) as ex:
                for g in ex.map(run, chunks):
                    got.update(g)
            for l, c in sel:
                r = got.get(c["id"])
                why = None
                if r is None:
                    why = "no record (process died)"
                elif r["out"] == "Hang":
                    why = "the receive never woke up after the last sender reference had gone (watchdog 8 s)"
                elif r["out"] != "Disconnected":
                    why = "the receive ended with %s instead of 'disconnected'" % r["out"]
                elif r["got"] != list(range(c["nmsg"])):
                    why = "'disconnected' was reported before all %d pending messages had been delivered (got %s)" % (c["nmsg"], r["got"])
                elif c["how"] == "spawn" and r["us"] > 2500000:
                    why = ("the last sender handle (one that had arrived inside a message) was dropped, but 'disconnected' was only reported after %d us: an unrelated child "
                           "process started meanwhile kept the channel connected" % r["us"])
                elif c["how"] != "carrier" and r["us"] + 200 < c["delay_us"]:
                    why = "'disconnected' after %d us although a sender handle existed for %d us" % (r["us"], c["delay_us"])
                if why:
                    chk.failing_input(why, {"build": fl, "scenario": l, "observed": r}, key="wake:%s:%s" % (fl, l))
            chk.coverage.setdefault("wake_scenarios", {})[fl] = len(sel)
        # channels that start life in a one-shot server: once the client's handles are gone the accepted receiver must say so, whichever
        # of accept / connect came first (a sender parked in a registry would keep the channel connected for ever)
        slines, k = [], 0
        for order in ("accept_first", "connect_first", "mid"):
            for n in (1, 3):
                k += 1
                slines.append("id=%d order=%s client=thread sizes=%s" % (k, order, ",".join(["10", "5000", "10"][:n])))
        nlines = ["id=%d op=noshow order=%s client=thread" % (50 + j, o) for j, o in enumerate(("accept_first", "connect_first"))]
        for fl in ("default", "inprocess"):
            recs, _, rc, err = C.run_harness(bins[fl], "server", slines + nlines, shim=False, timeout=300)
            seen = 0
            for r in recs:
                why = None
                if r.get("kind") == "server":
                    seen += 1
                    if not r["accepted"].get("ok"):
                        why = "accept failed or blocked: %s" % r["accepted"].get("err")
                    elif r["ended"] != "Disconnected":
                        why = ("after the client had sent its %d messages and dropped every sender handle, the receiver returned by accept reported %s instead of "
                               "'disconnected' (order %s)" % (r["n"], r["ended"], r["order"]))
                elif r.get("kind") == "noshow":
                    seen += 1
                    if r["accept"] == "hang":
                        why = "accept went on blocking although the only client had dropped its sender without sending (order %s)" % r["order"]
                if why:
                    chk.failing_input(why, {"build": fl, "observed": r}, key="srvdisc:%s:%s:%s" % (fl, r.get("order"), r.get("n")))
            if seen < len(slines) + len(nlines):
                chk.failing_input("one-shot server scenarios did not complete on the %s build (%d of %d): %s" % (fl, seen, len(slines) + len(nlines), err[-300:]),
                                  {"build": fl}, key="srvdisc:%s:incomplete" % fl)
            chk.coverage.setdefault("server_disconnect_scenarios", {})[fl] = seen
        # a sender PROCESS killed at every point of a multi-fragment send: 'disconnected' exactly when no other sender handle survives,
        # whichever receive variant looks (crash driver; the remains of the interrupted message are no reason to report closure)
        from . import props_conc as PCN
        shapes = PCN.crash_shapes(4096)
        ccases, cid = [], itertools.count(1)
        for npk in (2, 3):
            for k in range(0, 1 + (3 + npk) + 3):
                for surv in (0, 1):
                    # (every other kill point: the interrupted message embeds the sender of ANOTHER channel, whose receiver the program keeps -
                    # that channel too must report 'disconnected' once the message is discarded)
                    ccases.append({"id": next(cid), "len": shapes[npk], "k": k, "survivor": surv, "natt": k % 2, "nreg": 0,
                                   "observe": ["recv", "try", "timeout", "select"][(k + surv) % 4], "npk": npk, "S": 4096})
        for it in PCN.run_crash(bins["default"], 4096, ccases):
            why = PCN.crash_oracle(it)
            if why:
                c0 = it["case"]
                chk.failing_input("a sender process killed before its call %d of a %d-packet send, %s: %s"
                                  % (c0["k"], c0["npk"], "another sender handle survives" if c0["survivor"] else "no other sender", why),
                                  {"input": c0, "child_progress": it["child"], "observed": it["rec"]}, key="c03crash:npk=%d k=%d s=%d" % (c0["npk"], c0["k"], c0["survivor"]))
        chk.coverage["crashed_sender_scenarios"] = len(ccases)
        # sends that fail while serialising or are refused after embedding the only sender of a channel: with the program's handles
        # gone that channel is finished (res scenarios ser_fail_att / send_closed_probe on both builds)
        for fl in ("default", "inprocess"):
            rrecs, _, rrc, rerr = C.run_harness(bins[fl], "res", ["scen name=ser_fail_att n=6", "scen name=send_closed_probe n=4"], shim=False, timeout=120)
            for sname in ("ser_fail_att", "send_closed_probe"):
                rr = next((r for r in rrecs if r.get("kind") == "scen" and r.get("name") == sname), None)
                if rr is None:
                    chk.failing_input("scenario %s did not complete on the %s build (rc=%s): %s" % (sname, fl, rrc, rerr[-300:]), {"scenario": sname, "build": fl}, key="c03res:%s:%s" % (fl, sname))
                elif rr.get("notes"):
                    chk.failing_input("%s build: %s" % (fl, rr["notes"][0]), {"scenario": sname, "build": fl, "record": rr}, key="c03res:%s:%s:notes" % (fl, sname))
        # what the three receive variants REPORT, sequences with undecodable (too short) messages among them: 'disconnected' is said when
        # no sender is left and the queue is drained - not for a message the receiver's type cannot decode
        from . import props_set as PS0
        PS0.timed_slice(chk, bins, ["default", "inprocess"], 16 if thorough else 6, 43, "receive variants with undecodable messages")
        # receivers watched through a receiver set: after a burst of messages (more than any per-event budget) the last sender goes; the
        # set must deliver all of them and then report the closure instead of waiting for ever
        from . import props_set as PS
        brng = random.Random(chk.seed + 13)
        bcases = []
        for i in range(24 if thorough else 6):
            m = brng.randint(1, 3)
            bcases.append({"id": 300000 + i, "plans": [([40] * brng.choice([5, 66, 100, 129, 150]), True) for _ in range(m)], "late": [False] * m,
                           "mode": ["after", "before"][i % 2], "threads": 1 if i % 2 == 0 else m, "level": ["os", "ipc"][(i // 2) % 2]})
        blines = ["id=%d plan=%s mode=%s threads=%d eintr=0%s" % (c["id"], PS.plan_str(c["plans"]), c["mode"], c["threads"], " level=ipc" if c["level"] == "ipc" else "") for c in bcases]
        for fl in ("default", "inprocess"):
            brecs, _, brc, berr = C.run_harness(bins[fl], "rset", blines, shim=False, timeout=300)
            bby = {r["id"]: r for r in brecs if r.get("kind") == "rset"}
            for c in bcases:
                why = PS.rset_oracle({"case": c, "rec": bby.get(c["id"]), "stderr": berr})
                if why:
                    chk.failing_input("receivers watched through a receiver set, last sender dropped after a burst: " + why,
                                      {"build": fl, "plan": PS.plan_str(c["plans"]), "mode": c["mode"], "level": c["level"]}, key="c03set:%s:%s:%s" % (fl, PS.plan_str(c["plans"])[:120], c["mode"]))
            chk.coverage.setdefault("set_disconnect_scenarios", {})[fl] = len(bby)
    chk.assumptions += ["that a thread blocked in recvmsg/poll is woken when the last sender reference disappears is kernel behaviour (modelled as: the receive step is enabled "
                        "and yields Disconnected); it is exercised by the wake driver under a watchdog"]


def check_C19(chk):
    thorough = chk.tier == "thorough"
    bins = generic_prog_check(chk, "C19", ["default", "memfd", "inprocess"], 1500 if thorough else 100, 60, True,
                       "prog driver: the same seeded deterministic single-threaded programs (<= 60 operations, <= 6 channels, queues <= 40) on three builds "
                       "(OS transport, memfd feature, in-process transport); outcome sequences must be equal across builds and equal to the Unix and Ideal models; "
                       "non-trivial = programs with at least one message carrying endpoints", False)
    if bins:
        api_stage(chk, "C19", bins, ["default", "memfd", "inprocess"], 900 if thorough else 90, 60)
        # receiver sets with more traffic pending than the random programs ever queue (bursts of 66..150 messages on a member, then its
        # sender goes): every build must report all of it and then the closure
        from . import props_set as PS
        brng = random.Random(chk.seed + 17)
        bcases = []
        for i in range(18 if thorough else 6):
            m = brng.randint(1, 4)
            bcases.append({"id": 500000 + i, "plans": [([40] * brng.choice([3, 66, 100, 150]), True) for _ in range(m)], "late": [False] * m,
                           "mode": "after", "threads": 1, "level": "ipc"})
        # ... and several members that become ready in the OPPOSITE order of their ids, each with 20..40 results in one batch
        # (members added first, then filled by one thread starting with the member added last)
        for i in range(12 if thorough else 6):
            m = brng.randint(3, 6)
            bcases.append({"id": 500100 + i, "plans": [([40] * brng.randint(25, 40), True) for _ in range(m)], "late": [False] * m,
                           "mode": "before", "threads": 1, "level": "ipc", "rev": True})
        blines = ["id=%d plan=%s mode=%s threads=1 eintr=0 level=ipc%s" % (c["id"], PS.plan_str(c["plans"]), c["mode"], " rev=1" if c.get("rev") else "") for c in bcases]
        for fl in ("default", "memfd", "inprocess"):
            brecs, _, brc, berr = C.run_harness(bins[fl], "rset", blines, shim=False, timeout=300)
            bby = {r["id"]: r for r in brecs if r.get("kind") == "rset"}
            for c in bcases:
                why = PS.rset_oracle({"case": c, "rec": bby.get(c["id"]), "stderr": berr})
                if why:
                    chk.failing_input("a receiver set with a burst pending on the %s build (the ideal channel and the other builds deliver everything): %s" % (fl, why),
                                      {"build": fl, "plan": PS.plan_str(c["plans"])}, key="c19set:%s:%s" % (fl, PS.plan_str(c["plans"])[:120]))
            chk.coverage.setdefault("set_burst_scenarios", {})[fl] = len(bby)
        # the three receive variants mixed (a blocking receive after an 'empty' try_recv really waits, a timed one ends early on a message
        # or a hang-up, ...): every build has to give the answers of the ideal channel
        PS.timed_slice(chk, bins, ["default", "memfd", "inprocess"], 40 if thorough else 10, 37, "mixed receive variants")


def api_stage(chk, prop, bins, flavours, nprog, nops, seed_off=21, p_poison=0.08):
    """programs over the whole public API (regions as handles, receiver sets, one-shot servers, undecodable messages) on several
    builds: results must be equal across builds, equal to the generator's reference and equal to the Coq model Api.v"""
    from . import api as A
    rng = random.Random(chk.seed + seed_off)
    progs, exps = [], {}
    for i in range(nprog):
        ops, exp = A.gen_program(rng, nops, p_poison=p_poison)
        progs.append((i, ops))
        exps[i] = exp
    for ops, exp in A.fixed_programs():
        i = len(progs)
        progs.append((i, ops))
        exps[i] = exp
    out = {}
    with concurrent.futures.ThreadPoolExecutor(max_workers=8) as ex:
        futs = {fl: [ex.submit(A.run_resilient, bins[fl], progs[k::3], 4096 if (fl != "inprocess" and k == 0) else None) for k in range(3) if progs[k::3]]
                for fl in flavours}
        for fl in flavours:
            out[fl] = sorted([r for f in futs[fl] for r in f.result()], key=lambda r: r["prog"])
    fails = 0
    for fl in flavours:
        for it in out[fl]:
            why = None
            exp = exps[it["prog"]]
            for k, (a, b) in enumerate(zip(it["outs"], exp)):
                if a != b:
                    why = "operation %d (%s): the %s build answered %s, the ideal channel model says %s" % (k, A.op_line(it["ops"][k]), fl, a, b)
                    break
            if why is None and not it["complete"]:
                k = len(it["outs"])
                why = ("operation %d (%s) %s on the %s build" % (k, A.op_line(it["ops"][k]) if k < len(it["ops"]) else "end",
                                                                "never returned (watchdog)" if it["hang"] else "ended the process: " + it["stderr"][-200:], fl))
            if why is None and it["end"] and it["start"] and fl != "inprocess" and (it["end"]["fds"] != it["start"]["fds"] or it["end"]["maps"] != it["start"]["maps"]):
                why = "after every handle was dropped the process holds %d descriptors / %d mappings instead of %d / %d" % (
                    it["end"]["fds"], it["end"]["maps"], it["start"]["fds"], it["start"]["maps"])
            if why:
                fails += 1
                if fails <= 4:
                    ops = [A.op_line(o) for o in it["ops"]]
                    chk.failing_input(why, {"build": fl, "program": ops, "observed_results": it["outs"]}, key=("api:%s:%s" % (fl, ";".join(ops)))[:400])
    todo = []
    for fl in flavours:
        for j, it in enumerate(out[fl]):
            todo.append(((fl, j), A.render(it)))
    bad_render = [k for k, t in todo if t is None]
    todo = [(i, t) for i, (k, t) in enumerate(x for x in todo if x[1] is not None)]
    res, errors = C.coq_eval_sharded(A.HEADER, todo, lambda p: "Eval vm_compute in (%d, %s)." % p, prop.lower() + "api", shard=40)
    nbad = sum(1 for i, _ in todo if res.get(i) != "true")
    cov = chk.coverage
    cov["api_programs"] = {fl: len(out[fl]) for fl in flavours}
    cov["api_operations"] = sum(len(it["outs"]) for fl in flavours for it in out[fl])
    dist = {}
    for it in out[flavours[0]]:
        for s in it["outs"]:
            dist[s.split(" ")[0]] = dist.get(s.split(" ")[0], 0) + 1
    cov["api_result_distribution"] = dist
    cov["traces_validated_against_impl"] = cov.get("traces_validated_against_impl", 0) + len(todo)
    cov["correspondence_mismatches"] = cov.get("correspondence_mismatches", 0) + nbad + len(bad_render)
    if errors:
        chk.unproved("model evaluation (coqc on generated api programs) failed", errors[0][-1500:])
    if (nbad or bad_render) and not fails:
        fl, j = bad_render[0] if bad_render else next(k for i, (k, t) in enumerate(x for x in [((f, jj), A.render(o)) for f in flavours for jj, o in enumerate(out[f])] if x[1] is not None) if res.get(i) != "true")
        it = out[fl][j]
        chk.unproved("correspondence ApiCheck.check_api: results differ from the model Api.v on %d of %d programs" % (nbad + len(bad_render), len(todo) + len(bad_render)),
                     {"build": fl, "program": [A.op_line(o) for o in it["ops"]], "observed_results": it["outs"]})
    return fails, nbad + len(bad_render)


def check_C04(chk):
    thorough = chk.tier == "thorough"
    bins = generic_prog_check(chk, "C04", ["default", "inprocess"], 900 if thorough else 90, 60, True,
                              "prog driver: every third program is a transfer chain (receiver with a backlog of 0..20 messages moved over 1..5 hops, messages "
                              "sent before, between and after the hops, small and multi-packet carriers), the others random programs embedding 1..4 senders/receivers "
                              "per message; codec driver: values of types 9..12 (endpoints inside tuples/sequences/options, shuffled indices) decoded and every "
                              "endpoint identified by probing; non-trivial = programs with embedded endpoints", False, S=4096)
    if not bins:
        return
    # programs over the whole public API (endpoints embedded in messages that travel through sets and servers, next to regions and
    # undecodable messages) against the model Api.v - the tie of the C04_api theorems - on both builds
    api_stage(chk, "C04", bins, ["default", "inprocess"], 300 if thorough else 30, 60, seed_off=73)
    # mixtures of senders, receivers and regions in one message, small and multi-packet (frag driver, identity probes)
    from . import frag as F2
    nid0 = itertools.count(1)
    mix = []
    cap, f = F2.ffs(4096), F2.fs(4096)
    for ns in range(0, 4):
        for nr in range(0, 3):
            for nm in range(0, 4):
                for L in (10, cap + 100, cap + 2 * f + 7):
                    for lv in ("typed", "platform"):
                        mix.append({"id": next(nid0), "len": L, "nsend": ns, "nrecv": nr, "nshm": nm, "level": lv})
    # ... and messages that fill (or overfill by one) the 64 descriptor slots with endpoints AND regions, single- and multi-packet:
    # accepted ones arrive with every endpoint at its position, the others are refused whole
    full = []
    for tot in (62, 63, 64, 65):
        for nm in (1, 2, 5):
            for L in (10, cap + 100):
                for lv in ("typed", "platform"):
                    ns = (tot - nm) - (tot - nm) // 3
                    full.append({"id": next(nid0), "len": L, "nsend": ns, "nrecv": tot - nm - ns, "nshm": nm, "level": lv})
    fitems = F2.run_cases(bins["default"], 4096, full)
    for it in fitems:
        c = it["case"]
        fits = c["nsend"] + c["nrecv"] + c["nshm"] + (1 if F2.wire_len(c, it["rec"]) > cap else 0) <= 64
        why = F2.oracle(chk, it, fits)
        if why:
            chk.failing_input("a message filling the descriptor slots with endpoints and regions: " + why, {"input": c, "observed": it["rec"]},
                              key="full:len=%d ns=%d nr=%d nm=%d %s" % (c["len"], c["nsend"], c["nrecv"], c["nshm"], c["level"]))
    chk.coverage["full_slot_cases"] = len(fitems)
    mitems = F2.run_cases(bins["default"], 4096, mix)
    for it in mitems:
        why = F2.oracle(chk, it, True)
        if why:
            c = it["case"]
            chk.failing_input("mixture of endpoints and regions: " + why, {"input": c, "observed": it["rec"]},
                              key="mix:len=%d ns=%d nr=%d nm=%d %s" % (c["len"], c["nsend"], c["nrecv"], c["nshm"], c["level"]))
    chk.coverage["mixture_cases"] = len(mitems)
    # positions inside values: valid encodings of the endpoint-bearing types
    rng = random.Random(chk.seed + 4)
    nid = itertools.count(1)
    cases = []
    for _ in range(400 if thorough else 120):
        k = rng.choice([9, 10, 11, 12, 11, 12])
        bs, atts = K.gen_valid(k, rng)
        cases.append({"id": next(nid), "ty": k, "bytes": bs, "atts": atts, "kind": "valid", "drop": 0})
    items = K.run_cases(bins["default"], cases)
    for it in items:
        why = K.oracle(it)
        if why is None and it["rec"] and not it["rec"]["out"].startswith("Ok"):
            why = "a well-formed value with embedded endpoints was not decoded: %s" % it["rec"]["out"]
        if why is None and "?" in it["rec"]["out"]:
            why = "a received endpoint is not connected to the channel that was sent (probe found no peer): %s" % it["rec"]["out"]
        if why:
            chk.failing_input(why, {"type": it["case"]["ty"], "bytes": it["case"]["bytes"].hex(), "atts": it["case"]["atts"], "observed": it["rec"]},
                              key="codec:%d:%s:%s" % (it["case"]["ty"], it["case"]["bytes"].hex()[:80], it["case"]["atts"]))
    todo = [(i, K.coq_term(it)) for i, it in enumerate(items)]
    todo = [t for t in todo if t[1]]
    res, errors = C.coq_eval_sharded(K.HEADER, todo, lambda p: "Eval vm_compute in (%d, %s)." % p, "c04codec", shard=60)
    bad = [items[i] for i, _ in todo if res.get(i) != "true"]
    chk.coverage["codec_values"] = len(items)
    chk.coverage["traces_validated_against_impl"] += len(todo)
    chk.coverage["correspondence_mismatches"] += len(bad)
    if bad and not chk.violations:
        it = bad[0]
        chk.unproved("correspondence CodecCheck.check_dec: decoded value differs from Codec.decode_msg on %d of %d values" % (len(bad), len(todo)),
                     {"type": it["case"]["ty"], "bytes": it["case"]["bytes"].hex(), "atts": it["case"]["atts"], "observed": it["rec"]["out"]})
    # a receiver that its first owner has polled (try_recv: nothing there) before it travels on: the new owner must get the backlog and
    # everything sent later, with a blocking, timed or polling receive, and then the disconnection
    prng = random.Random(chk.seed + 9)
    pcases = [{"id": i + 1, "mode": ["recv", "timed", "poll"][i % 3], "delay_us": prng.choice([300, 3000, 20000]), "nmsg": prng.choice([0, 0, 2]), "clones": prng.randint(1, 3)}
              for i in range(60 if thorough else 12)]
    # ... and receivers serialised through a shared reference, the sending side keeping (and polling) the handle it was sent from: that
    # handle is dead after the send; backlog and later traffic belong to the new owner
    kcases = [{"id": 100 + i, "mode": ["recv", "timed", "poll"][i % 3], "delay_us": prng.choice([300, 3000]), "nmsg": [3, 0, 1, 5][i % 4], "clones": prng.randint(1, 3), "kept": True}
              for i in range(24 if thorough else 8)]
    pcases = pcases + kcases
    plines = ["id=%d how=%s mode=%s delay_us=%d nmsg=%d clones=%d" % (c["id"], "kept" if c.get("kept") else "polled", c["mode"], c["delay_us"], c["nmsg"], c["clones"]) for c in pcases]
    for fl in ("default", "inprocess"):
        precs, _, prc, perr = C.run_harness(bins[fl], "wake", plines, shim=False, timeout=300)
        pby = {r["id"]: r for r in precs if r.get("kind") == "wake"}
        for l, c in zip(plines, pcases):
            r = pby.get(c["id"])
            why = None
            if r is None:
                why = "no record (process died): %s" % perr[-200:]
            elif r.get("stolen"):
                why = "the handle the receiver was sent from (kept by the sending side) still received %s after the transfer" % r["stolen"]
            elif r["out"] == "Hang":
                why = "the transferred receiver's new owner waited for ever (watchdog 8 s)"
            elif r["got"] != list(range(c["nmsg"] + c["clones"])):
                why = "the transferred receiver yielded %s instead of the %d pending and %d later messages in order (then: %s)" % (r["got"], c["nmsg"], c["clones"], r["out"])
            elif r["out"] != "Disconnected":
                why = "after its messages the transferred receiver reported %s instead of 'disconnected'" % r["out"]
            if why:
                chk.failing_input(("a receiver sent inside a message through a shared reference: " if c.get("kept") else "a receiver polled by its first owner and then sent inside a message: ") + why, {"build": fl, "scenario": l, "observed": r}, key="polled:%s:%s" % (fl, l))
        chk.coverage.setdefault("polled_then_transferred_receivers", {})[fl] = len(pby)
    # a message that embeds endpoints and follows, on the same channel, a multi-packet message (itself embedding endpoints) whose sender
    # process died half-way: the later message must arrive with exactly its own endpoints (crash driver, every kill point)
    from . import props_conc as PCN
    shapes = PCN.crash_shapes(4096)
    ccases, cid = [], itertools.count(1)
    for npk in (2, 3):
        ncalls = 1 + (3 + npk) + 2 + 1
        for k in range(0, ncalls + 2):
            ccases.append({"id": next(cid), "len": shapes[npk], "k": k, "survivor": 1, "natt": 2, "observe": ["recv", "try", "select", "timeout"][k % 4], "npk": npk, "S": 4096})
    for it in PCN.run_crash(bins["default"], 4096, ccases):
        why = PCN.crash_oracle(it)
        if why:
            c = it["case"]
            chk.failing_input("endpoints embedded in the message after an interrupted one (sender killed before its call %d of a %d-packet send carrying 2 endpoints): %s" % (c["k"], c["npk"], why),
                              {"input": c, "child_progress": it["child"], "observed": it["rec"]}, key="c04crash:npk=%d k=%d" % (c["npk"], c["k"]))
    chk.coverage["endpoints_after_interrupted_message_scenarios"] = len(ccases)
    # values whose serialisation itself sends (nested sends with their own endpoints): every level's endpoints must arrive
    # connected to what was embedded at that level (script driver shared with C14; successful programs only matter here)
    from . import props_codec as PC
    scases, sgot, sfails, stodo, sbad, serrors = PC.script_stage(chk, random.Random(chk.seed + 5), bins["default"], 1500 if thorough else 120,
                                                                4 if thorough else 3, tag="c04script")
    chk.coverage["nested_send_values"] = len(scases)
    chk.coverage["traces_validated_against_impl"] += len(stodo)
    chk.coverage["correspondence_mismatches"] += len(sbad)
    if serrors:
        chk.unproved("model evaluation (coqc on generated nested-send cases) failed", serrors[0][-1500:])
    if sbad and not chk.violations:
        c, r = sbad[0]
        chk.unproved("correspondence TlsCheck.check_script: attachments of nested / enclosing messages differ from Tls.ipc_send on %d of %d values" % (len(sbad), len(stodo)),
                     {"serializer_program": c["body"], "kinds": c["kinds"], "pre": c["pre"], "observed": r and r["result"]})


def check_C11(chk):
    thorough = chk.tier == "thorough"
    bins = generic_prog_check(chk, "C11", ["default", "memfd"], 1200 if thorough else 100, 400 if thorough else 60, False,
                              "prog driver: random operation sequences (create, clone, send small/with embedded endpoints, failing sends to closed receivers, "
                              "receive, transfer, drop in any order); after every operation the number of open descriptors must equal the Unix model's, the full "
                              "descriptor ledger (socketpair / install / close, by identity) must equal the model's trace, no close may fail, and after the final drop "
                              "the process holds what it held before; res driver: connect to missing names, unused and used one-shot servers, regions, sets, "
                              "undecoded messages, a TMPDIR that does not fit sun_path, each repeated, and what an unrelated spawned child inherits; "
                              "non-trivial = programs with embedded endpoints", True)
    if not bins:
        return
    # programs over the whole public API against the model Api.v - the tie of C11_api_held_exact / C11_api_quiescent; every program
    # ends by dropping all its handles, after which the process must hold the descriptors and mappings it started with
    api_stage(chk, "C11", bins, ["default", "memfd"], 300 if thorough else 30, 60, seed_off=79)
    n = 1000 if thorough else 40
    tmp = os.path.join(C.BUILD, "tmp", "res-%d" % os.getpid())
    os.makedirs(tmp, exist_ok=True)
    names = ["connect_missing", "server_unused", "server_cycle", "connect_after_accept", "shm_cycle", "set_cycle", "send_closed_att",
             "undecoded_drop", "undecoded_low_fd", "prefix_decode_fresh_thread", "too_many_att", "server_bad_tmpdir", "router_cycle", "ser_fail_att", "connect_long", "server_noshow", "server_bad_first", "send_closed_big_att"]
    for fl in ("default", "memfd"):
        recs, trace, rc, err = C.run_harness(bins[fl], "res", ["scen name=%s n=%d" % (s, n) for s in names] + ["inherit"],
                                             env_extra={"TMPDIR": tmp}, timeout=900)
        got = {r.get("name"): r for r in recs if r.get("kind") == "scen"}
        for s in names:
            r = got.get(s)
            if r is None:
                chk.failing_input("resource scenario %s did not complete (rc=%s): %s" % (s, rc, err[-300:]), {"scenario": s, "build": fl}, key="res:%s:%s" % (fl, s))
                continue
            if r.get("fds_cold", r["fds_before"]) != r["fds_before"] or r.get("maps_cold", r["maps_before"]) != r["maps_before"]:
                # a bounded leak: what ONE run of the scenario leaves behind (later runs replace it, so repetitions do not grow)
                chk.failing_input("one run of scenario %s leaves descriptors / mappings behind that stay for the life of the thread: fds %d -> %d, mappings %d -> %d (%s)"
                                  % (s, r["fds_cold"], r["fds_before"], r["maps_cold"], r["maps_before"], r.get("warmup_fds", [])[:4]),
                                  {"scenario": s, "build": fl, "record": r}, key="res:%s:%s:once" % (fl, s))
            if r["fds_after"] != r["fds_before"]:
                chk.failing_input("scenario %s x%d leaks descriptors: %d -> %d (%s)" % (s, n, r["fds_before"], r["fds_after"], r["new_fds"][:4]),
                                  {"scenario": s, "build": fl, "record": r}, key="res:%s:%s:fds" % (fl, s))
            if r["maps_after"] != r["maps_before"]:
                chk.failing_input("scenario %s x%d leaks shared mappings: %d -> %d" % (s, n, r["maps_before"], r["maps_after"]),
                                  {"scenario": s, "build": fl, "record": r}, key="res:%s:%s:maps" % (fl, s))
            if r["tmp_after"] != r["tmp_before"]:
                chk.failing_input("scenario %s x%d leaves temporary files behind: %d -> %d entries" % (s, n, r["tmp_before"], r["tmp_after"]),
                                  {"scenario": s, "build": fl, "record": r}, key="res:%s:%s:tmp" % (fl, s))
            if r["notes"]:
                chk.failing_input("scenario %s: %s" % (s, r["notes"][:3]), {"scenario": s, "build": fl, "record": r}, key="res:%s:%s:notes" % (fl, s))
        inh = next((r for r in recs if r.get("kind") == "inherit"), None)
        if inh is None:
            chk.failing_input("inheritance scenario did not complete", {"build": fl, "stderr": err[-300:]}, key="res:%s:inherit" % fl)
        else:
            extra = [x for x in inh["with_objects"] if x not in inh["base"]]
            if extra:
                chk.failing_input("an unrelated spawned child inherits descriptors created or received by the library: %s" % extra[:6],
                                  {"build": fl, "record": inh}, key="res:%s:inherit:%s" % (fl, sorted(x.split(":", 1)[1][:12] for x in extra)[:3]))
        # close-on-exec and close results straight from the trace
        bad_flags = [r for r in trace if r["call"] in ("socketpair", "socket", "accept", "dup", "install", "shm_open", "epoll_create") and r.get("cloexec") == 0]
        if bad_flags:
            chk.failing_input("descriptor created without close-on-exec: %s" % bad_flags[0], {"build": fl, "calls": bad_flags[:5]}, key="res:%s:cloexec:%s" % (fl, bad_flags[0]["call"]))
        bad_close = [r for r in trace if r["call"] == "close" and r.get("res") != 0]
        if bad_close:
            chk.failing_input("close() failed on a tracked descriptor (double close?): %s" % bad_close[0], {"build": fl}, key="res:%s:badclose" % fl)
        chk.coverage.setdefault("resource_scenarios", {})[fl] = {s: (got[s]["fds_before"], got[s]["fds_after"]) for s in got}
        # sends that lose their receiver before, and in the middle of, a multi-fragment transfer (sender as thread and as forked
        # process): every close the library issues must succeed - a failing close of a number it had already closed is a double close
        vlines = ["id=1 scen=during len=8388608 proc=0", "id=2 scen=during len=8388608 proc=1", "id=3 scen=before len=300000 natt=3", "id=4 scen=carrier len=4194304"]
        vrecs, vtrace, vrc, verr = C.run_harness(bins[fl], "vanish", vlines, timeout=300)
        vbad = [r for r in vtrace if r["call"] == "close" and r.get("res") != 0]
        if vbad:
            chk.failing_input("a send that lost its receiver in the middle of a multi-fragment transfer closed a descriptor twice (the second close fails with EBADF - or hits "
                              "whatever re-used the number): %s" % vbad[0], {"build": fl, "scenarios": vlines, "failing_closes": vbad[:4]}, key="res:%s:vanish-badclose" % fl)
        if len([r for r in vrecs if r.get("kind") == "vanish"]) < len(vlines):
            chk.failing_input("the receiver-vanishes scenarios did not complete (rc=%s): %s" % (vrc, verr[-300:]), {"build": fl}, key="res:%s:vanish-incomplete" % fl)
        chk.coverage.setdefault("vanish_close_scan", {})[fl] = sum(1 for r in vtrace if r["call"] == "close")
    # a sender process that dies at every point of a multi-fragment send carrying channels and regions: whatever the receiver had already
    # been handed for the interrupted message must be released (crash driver: descriptor and mapping counts of the receiving process)
    from . import props_conc as PCN
    shapes = PCN.crash_shapes(4096)
    ccases, cid = [], itertools.count(1)
    for npk in (2, 3):
        for k in range(0, 1 + (3 + npk) + 2 + 2):
            ccases.append({"id": next(cid), "len": shapes[npk], "k": k, "survivor": k % 2, "natt": 2, "nreg": 2, "observe": ["recv", "select", "try"][k % 3], "npk": npk, "S": 4096})
    for it in PCN.run_crash(bins["default"], 4096, ccases):
        why = PCN.crash_oracle(it)
        if why:
            c0 = it["case"]
            chk.failing_input("receiver of a message whose sender process was killed before its call %d of a %d-packet send carrying 2 channels and 2 regions: %s" % (c0["k"], c0["npk"], why),
                              {"input": c0, "child_progress": it["child"], "observed": it["rec"]}, key="c11crash:npk=%d k=%d" % (c0["npk"], c0["k"]))
        for r in it.get("bad_cloexec", [])[:1]:
            chk.failing_input("descriptor created without close-on-exec during a multi-fragment send: %s" % r, {"call": r}, key="c11crash:cloexec:%s" % r["call"])
    chk.coverage["interrupted_transfer_scenarios"] = len(ccases)
    chk.coverage["resource_repetitions"] = n
