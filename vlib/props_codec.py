"""Checks for C14 (script driver) and C16 (codec driver)."""
import concurrent.futures
import itertools
import random

from . import common as C
from . import codec as K
from .props_frag import build_all, finish_proof


# ------------------------------------------------------------------ C16
def check_C16(chk):
    thorough = chk.tier == "thorough"
    rng = random.Random(chk.seed)
    proof_ok = C.proof_stage(chk, "C16")
    flavours = ["default", "inprocess"] + (["memfd"] if thorough else [])
    bins = build_all(chk, flavours)
    if not all(bins.values()):
        return
    n = 50000 if thorough else 2400
    nid = itertools.count(1)
    cases = K.gen_cases(rng, n, nid)
    chunks = [cases[i::12] for i in range(12)]
    with concurrent.futures.ThreadPoolExecutor(max_workers=12) as ex:
        items = [it for r in ex.map(lambda ch: K.run_cases(bins["default"], ch), chunks) for it in r]
    if thorough:
        rel, _ = C.build_harness("default", release=True)
        if rel:
            items += K.run_cases(rel, K.gen_cases(rng, 3000, nid))
    fails = []
    for it in items:
        why = K.oracle(it)
        if why:
            fails.append((it, why))
    for it, why in fails[:8]:
        c = it["case"]
        chk.failing_input(why, {"expected_type": c["ty"], "bytes": c["bytes"].hex(), "attachments": c["atts"], "stream": c["kind"], "drop_undecoded": c["drop"],
                                "observed": it["rec"]}, key="ty=%d bytes=%s atts=%s drop=%d" % (c["ty"], c["bytes"].hex()[:120], c["atts"], c["drop"]))
    todo = [(i, K.coq_term(it)) for i, it in enumerate(items)]
    todo = [t for t in todo if t[1]]
    res, errors = C.coq_eval_sharded(K.HEADER, todo, lambda p: "Eval vm_compute in (%d, %s)." % p, "c16", shard=80)
    bad = [items[i] for i, _ in todo if res.get(i) != "true"]
    cov = chk.coverage
    cov["evaluations"] = len(items)
    cov["traces_validated_against_impl"] = len(todo)
    cov["distinct_nontrivial"] = len({(it["case"]["ty"], it["case"]["bytes"], it["case"]["atts"]) for it in items if it["case"]["kind"] != "valid"})
    cov["correspondence_mismatches"] = len(bad)
    kinds = {}
    for it in items:
        k = "%s/%s" % (it["case"]["kind"], (it["rec"] or {}).get("out", "none").split()[0].split("(")[0])
        kinds[k] = kinds.get(k, 0) + 1
    cov["input_distribution"] = {"stream/outcome": kinds, "types": {str(t): sum(1 for it in items if it["case"]["ty"] == t) for t in range(1, 13)}}
    cov["rule"] = ("codec driver: (bytes, attachments) messages sent through the public API with a raw sender and decoded as one of 14 expected types: 45% valid "
                   "encodings, 40% mutations (bit flips, truncation, extension, out-of-range / huge / duplicate indices, missing, surplus and wrong-kind "
                   "attachments, random byte strings up to 4096 B), 15% type confusion; 7% are received and dropped without decoding; the decoded value "
                   "(every endpoint identified by probing) or the error is compared with Codec.decode_msg, and after the message is gone every attachment "
                   "must be released and the descriptor count unchanged; non-trivial = not a valid encoding")
    for it in [i for i in items if i["case"]["kind"] == "mutated"][:3] + [i for i in items if i["case"]["kind"] == "confused"][:1]:
        chk.sample({"expected_type": it["case"]["ty"], "bytes": it["case"]["bytes"].hex()[:80], "attachments": it["case"]["atts"], "observed": it["rec"] and it["rec"]["out"][:120]})
    if errors:
        chk.unproved("model evaluation (coqc on generated cases) failed", errors[0][-1500:])
    if bad and not fails:
        it = bad[0]
        chk.unproved("correspondence CodecCheck.check_dec: the real deserialiser and Codec.decode_msg disagree on %d of %d messages" % (len(bad), len(todo)),
                     {"expected_type": it["case"]["ty"], "bytes": it["case"]["bytes"].hex(), "attachments": it["case"]["atts"], "observed": it["rec"]["out"]})
    chk.assumptions += ["bincode/serde behaviour outside the 12 modelled types is not covered; what Rust drops on an error path is released by Drop (observed through "
                        "liveness probes, not modelled)"]
    # undecodable messages inside whole-API programs (received directly, through a set, carrying endpoints and regions), against the Api model
    from . import props_prog as PP
    af, ab = PP.api_stage(chk, "C16", bins, [f for f in ("default", "inprocess") if f in bins and bins[f]], 400 if thorough else 45, 60, seed_off=51, p_poison=0.3)
    fails = fails + [None] * af
    bad = bad + [None] * ab
    # a message received from INSIDE another message's deserialisation, well-formed or not (among them: no attachments of its own, bytes
    # that claim an attachment of the enclosing message): it can only ever yield endpoints attached to itself
    nfails = []
    # a message whose attachment is never referenced by the decode (it fails, or the type ends first), received while standard stream
    # numbers are free: the descriptor - whatever number it got - is released with the message (res scenarios shared with C11)
    lrecs, _, lrc, lerr = C.run_harness(bins["default"], "res", ["scen name=undecoded_low_fd n=3", "scen name=prefix_decode_fresh_thread n=3"], shim=False, timeout=120)
    for sname in ("undecoded_low_fd", "prefix_decode_fresh_thread"):
        lr = next((r for r in lrecs if r.get("kind") == "scen" and r.get("name") == sname), None)
        if lr is None:
            nfails_pre = "scenario %s did not complete (rc=%s): %s" % (sname, lrc, lerr[-300:])
            chk.failing_input(nfails_pre, {"scenario": sname}, key="c16res:%s" % sname)
        elif lr.get("notes"):
            chk.failing_input("scenario %s: %s" % (sname, lr["notes"][0]), {"scenario": sname, "record": lr}, key="c16res:%s:notes" % sname)
    ncases, ntodo, nbad = nestrecv_stage(chk, random.Random(chk.seed + 23), bins["default"], 300 if thorough else 40, nfails, tag="c16n")
    chk.coverage["nested_receive_cases"] = len(ncases)
    finish_proof(chk, proof_ok, fails + nfails, bad + nbad)


# ------------------------------------------------------------------ C14
def gen_body(rng, nend, nreg, depth, used):
    """a serialiser program; every endpoint is embedded at most once overall (a moved receiver cannot be moved twice)"""
    acts, term = [], []
    for _ in range(rng.randint(1, 5)):
        r = rng.random()
        free = [e for e in range(nend) if e not in used]
        if r < 0.2:
            acts.append("e")
            term.append("SEmit")
        elif r < 0.6 and free:
            e = rng.choice(free)
            used.add(e)
            acts.append("x%d" % e)          # kind decided by the caller: placeholder
            term.append("X%d" % e)
        elif r < 0.7 and nreg:
            g = rng.randrange(nreg)
            acts.append("g%d" % g)
            term.append("SRegion %d" % g)
        elif r < 0.9 and depth > 0:
            prop = rng.random() < 0.4
            a, t = gen_body(rng, nend, nreg, depth - 1, used)
            acts.append("%s(%s)" % ("P" if prop else "N", a))
            term.append("SNest [%s] %s" % (t, "true" if prop else "false"))
        elif r < 0.97:
            # a raw-bytes send (IpcBytesSender::send) issued from inside the serialiser: it carries no attachments and touches
            # no per-thread list; for the side tables it is plain data (SEmit in the model)
            acts.append("b")
            term.append("SEmit")
        else:
            acts.append("f")
            term.append("SFail")
            break
    return ",".join(acts), "; ".join(term)


def expected_bytes(body):
    """bytes of every message a scripted send produces, in completion order (inner messages first); mirrors the
    serialiser-program semantics: each message numbers its OWN attachments from 0"""
    import struct

    def parse(s, i=0):
        acts = []
        while i < len(s):
            c = s[i]
            i += 1
            if c == ",":
                continue
            if c == ")":
                return acts, i
            if c in "efb":
                acts.append((c,))
            elif c in "trg":
                j = i
                while j < len(s) and s[j].isdigit():
                    j += 1
                acts.append((c, int(s[i:j])))
                i = j
            elif c in "NP":
                inner, i = parse(s, i + 1)
                acts.append((c, inner))
        return acts, i

    out = []

    def ser(acts):
        bs, nch, nrg = b"", 0, 0
        for a in acts:
            if a[0] == "e":
                bs += b"\x07"
            elif a[0] == "b":
                bs += b"\x09"
            elif a[0] == "f":
                return None
            elif a[0] in "tr":
                bs += struct.pack("<Q", nch)
                nch += 1
            elif a[0] == "g":
                bs += struct.pack("<Q", nrg)
                nrg += 1
            else:
                inner = ser(a[1])
                if inner is not None:
                    out.append(inner)
                    bs += b"\x01"
                elif a[0] == "P":
                    return None
                else:
                    bs += b"\x00"
        return bs
    top = ser(parse(body)[0])
    if top is not None:
        out.append(top)
    return [b.hex() for b in out]


def finalize(body, term, kinds):
    import re
    body = re.sub(r"x(\d+)", lambda m: ("t" if kinds[int(m.group(1))] == "t" else "r") + m.group(1), body)
    term = re.sub(r"X(\d+)", lambda m: ("STx " if kinds[int(m.group(1))] == "t" else "SRx ") + m.group(1), term)
    return body, term


def script_stage(chk, rng, binp, ncases, depth, tag="c14"):
    """script driver: values whose Serialize implementation interprets a generated program (embedding endpoints, nested sends,
    failures); returns (cases, got, fails, todo, bad, errors)"""
    cases = []
    for i in range(ncases):
        nend, nreg = rng.randint(1, 8), rng.randint(0, 2)
        kinds = "".join(rng.choice("ttr") for _ in range(nend))
        used = set()
        pre = None
        predead = False
        r0 = rng.random()
        if r0 < 0.35:
            # an earlier send on the same thread that fails after embedding something
            pb, pt = gen_body(rng, nend, nreg, 1, used)
            pb, pt = finalize(pb + ",f", pt + "; SFail" if pt else "SFail", kinds)
            pre = (pb, pt)
        elif r0 < 0.5:
            # an earlier send on the same thread that serialises fine (embedding endpoints / regions) but is refused by the OS: its
            # receiver is gone.  Nothing of it may reach the messages sent afterwards.
            pb, pt = gen_body(rng, nend, nreg, 0, used)
            pb, pt = finalize(pb, pt, kinds)
            pre = (pb, pt)
            predead = True
        b, t = gen_body(rng, nend, nreg, depth, used)
        if rng.random() < 0.3:
            b, t = b + ",f", (t + "; SFail") if t else "SFail"
        b, t = finalize(b, t, kinds)
        cases.append({"id": i + 1, "body": b, "term": t, "nend": nend, "kinds": kinds, "nreg": nreg, "pre": pre, "predead": predead})
    lines = ["id=%d body=%s nend=%d kinds=%s nreg=%d%s%s" % (c["id"], c["body"], c["nend"], c["kinds"], c["nreg"],
                                                           (" pre=" + c["pre"][0]) if c["pre"] else "", " predead=1" if c["predead"] else "") for c in cases]
    chunks = [list(range(len(cases)))[i::8] for i in range(8)]

    def run(idx):
        recs, _, rc, err = C.run_harness(binp, "script", [lines[i] for i in idx], shim=False, timeout=600)
        return {r["id"]: r for r in recs if r.get("kind") == "script"}, err
    got = {}
    with concurrent.futures.ThreadPoolExecutor(max_workers=8) as ex:
        for g, err in ex.map(run, chunks):
            got.update(g)
    fails, todo = [], []
    for i, c in enumerate(cases):
        r = got.get(c["id"])
        if r is None:
            fails.append((c, None, "harness produced no record (crash?)"))
            continue
        res = r["result"]
        why = None
        if not all(res["released"]):
            why = ("after the send (%s) and after every handle of the program was dropped, an embedded endpoint is still held by the library: released=%s"
                   % ("ok" if res["res"] else "failed", res["released"]))
        elif not res["after"]:
            why = "a plain send after the scripted one failed"
        elif res["msgs"] and (res["msgs"][-1]["nchans"] != 0 or res["msgs"][-1]["nregions"] != 0):
            why = "the plain message sent afterwards carries attachments of an earlier send: %s" % res["msgs"][-1]
        elif r["fds_after"] != r["fds_before"]:
            why = "descriptor count changed: %d -> %d" % (r["fds_before"], r["fds_after"])
        if why:
            fails.append((c, r, why))
        # the attachment references written into each message must be positions in THAT message's own lists
        if c["predead"] and res.get("pre") and not why:
            fails.append((c, r, "a send to a channel whose receiver is gone reported success"))
        want = (expected_bytes(c["pre"][0]) if (c["pre"] and not c["predead"]) else []) + expected_bytes(c["body"]) + ["0707"]
        have = [m.get("data") for m in res["msgs"]]
        if have != want and not why:
            fails.append((c, r, "a message's bytes (attachment indices, nested-send results) are not those of a self-contained send: expected %s, received %s"
                          % (want, have)))
        obs = "; ".join("([%s], %d)" % ("; ".join(m["chans"]), m["nregions"]) for m in res["msgs"])
        if "?" in obs:
            fails.append((c, r, "a received attachment is not connected to the endpoint that was embedded: %s" % obs))
            continue
        has_pre = bool(c["pre"]) and not c["predead"]      # a send the OS refused leaves no message and (theorem C14_err_releases) no trace
        pre_t = c["pre"][1] if has_pre else ""
        todo.append((i, "check_script [%s] %s [%s] %s %s [%s]" % (pre_t, "true" if has_pre else "false", c["term"],
                                                                   "true" if res.get("pre") else "false", "true" if res["res"] else "false", obs)))
    for c, r, why in fails[:8]:
        chk.failing_input(why, {"serializer_program": c["body"], "endpoint_kinds": c["kinds"], "earlier_failing_send": c["pre"] and c["pre"][0], "observed": r and r["result"]},
                          key="body=%s kinds=%s pre=%s" % (c["body"], c["kinds"], c["pre"] and c["pre"][0]))
    header = "From Coq Require Import List Bool.\nFrom IPC Require Import Codec Tls TlsCheck.\nImport ListNotations.\n"
    res, errors = C.coq_eval_sharded(header, todo, lambda p: "Eval vm_compute in (%d, %s)." % p, tag, shard=100)
    bad = [(cases[i], got.get(cases[i]["id"])) for i, _ in todo if res.get(i) != "true"]
    return cases, got, fails, todo, bad, errors


def nestrecv_stage(chk, rng, binp, n, fails, tag="c14n"):
    """nested receives (a receive-and-decode issued from inside another value's Deserialize): oracle + model TlsRecv; returns (ncases, ntodo, nbad)"""
    # receive side: a receive-and-decode issued from inside another value's Deserialize (model: TlsRecv)
    nlines, ncases = [], []
    for i in range(n):
        c = {"id": i + 1, "bad": rng.choice([0, 0, 0, 0, 1, 1, 2, 2]), "prop": int(rng.random() < 0.6), "nafter": rng.randint(0, 4), "ninner": rng.randint(0, 3)}
        ncases.append(c)
        nlines.append("id=%(id)d bad=%(bad)d prop=%(prop)d nafter=%(nafter)d ninner=%(ninner)d" % c)
    recs, _, rc, err = C.run_harness(binp, "nestrecv", nlines, shim=False, timeout=300)
    ngot = {r["id"]: r for r in recs if r.get("kind") == "nestrecv"}
    for c in ncases:
        r = ngot.get(c["id"])
        why = None
        if r is None:
            why = "harness produced no record for a nested receive (crash / panic?): %s" % err[-300:]
        else:
            res = r["result"]
            want = "Err" if (c["bad"] and c["prop"]) else "Ok"
            if res["outcome"] != want:
                why = "outer receive result %s, expected %s" % (res["outcome"], want)
            elif not res["ok"]:
                why = "an endpoint or region of the outer / inner value is not the one that was embedded at that position: %s" % res["detail"]
            elif not res["later_ok"]:
                why = "a plain message received afterwards on the same thread did not decode with its own attachment"
            elif not all(res["released"]):
                why = "an attachment not handed to the program is still held after the receive: released=%s" % res["released"]
            elif r["fds_after"] != r["fds_before"] or r["maps"] != 0:
                why = "descriptors / mappings left behind: fds %d -> %d, maps %d" % (r["fds_before"], r["fds_after"], r["maps"])
        if why:
            fails.append((c, r, why))
            chk.failing_input("nested receive inside a deserialisation: " + why, {"nestrecv_case": c, "observed": r and r["result"]},
                              key="nestrecv bad=%(bad)d prop=%(prop)d nafter=%(nafter)d ninner=%(ninner)d" % c)
            break
    # ... and the same observations against the model TlsRecv.to_ (attachment identities = endpoint numbers)
    ntodo = []
    for c in ncases:
        r = ngot.get(c["id"])
        if r is None:
            continue
        ni, na = c["ninner"], c["nafter"]
        some = lambda xs: "[" + "; ".join("Some %d" % x for x in xs) + "]"
        lst = lambda xs: "[" + "; ".join(str(x) for x in xs) + "]"
        if c["bad"] == 2:
            # bytes that read as an Inner claiming attachment 1, the empty region (no table access) and no further senders
            inner_msg, inner_body = "{| tc := []; tr := [] |}", "[DChan 1; DData; DData]"
        elif c["bad"]:
            inner_msg, inner_body = "{| tc := []; tr := [] |}", "[DChan 77; DRegion 0; DData]"
        else:
            inner_msg = "{| tc := %s; tr := [Some 100] |}" % some([1] + list(range(2, 2 + ni)))
            inner_body = lst(["DChan 0", "DRegion 0", "DData"] + ["DChan %d" % (1 + j) for j in range(ni)])
        outer_msg = "{| tc := %s; tr := [Some 101] |}" % some([0] + list(range(2 + ni, 2 + ni + na)))
        body = lst(["DChan 0", "DData", "DNest (%s) %s %s" % (inner_msg, inner_body, "true" if c["prop"] else "false"), "DData"]
                   + ["DChan %d" % (1 + j) for j in range(na)] + ["DRegion 0"])
        d = r["result"]["detail"]
        gc = [x[-1] for x in d if x[0] in ("before", "after")]
        gr = [x[-1] for x in d if x[0] == "region"]
        inn = [x[-1] for x in d if x[0] in ("inner.a", "inner.b")]
        innr = [x[-1] for x in d if x[0] == "inner.r"]
        if any(v < 0 for v in gc + gr + inn + innr):
            continue    # already reported by the oracle above
        inner_obs = "[(%s, %s)]" % (lst(inn), lst(innr)) if innr else "[]"
        ntodo.append((c["id"], "check_to (%s) %s %s %s %s %s" % (outer_msg, body, "true" if r["result"]["outcome"] == "Ok" else "false", lst(gc), lst(gr), inner_obs)))
    nheader = "From Coq Require Import List Bool.\nFrom IPC Require Import TlsRecv.\nImport ListNotations.\n"
    nres, nerrors = C.coq_eval_sharded(nheader, ntodo, lambda p: "Eval vm_compute in (%d, %s)." % p, tag, shard=100)
    nbad = [i for i, _ in ntodo if nres.get(i) != "true"]
    if nerrors:
        chk.unproved("model evaluation (coqc on generated nested-receive cases) failed", nerrors[0][-1500:])
    if nbad and not fails:
        c = next(x for x in ncases if x["id"] == nbad[0])
        chk.unproved("correspondence TlsRecv.check_to: what a nested receive handed out differs from TlsRecv.to_ on %d of %d cases" % (len(nbad), len(ntodo)),
                     {"nestrecv_case": c, "observed": ngot[c["id"]]["result"], "model_term": dict(ntodo)[c["id"]]})
    return ncases, ntodo, nbad


def check_C14(chk):
    thorough = chk.tier == "thorough"
    rng = random.Random(chk.seed)
    proof_ok = C.proof_stage(chk, "C14")
    bins = build_all(chk, ["default", "inprocess"])
    if not all(bins.values()):
        return
    cases, got, fails, todo, bad, errors = script_stage(chk, rng, bins["default"], 5000 if thorough else 300, 5 if thorough else 3)
    cov = chk.coverage
    cov["evaluations"] = len(cases)
    cov["traces_validated_against_impl"] = len(todo)
    cov["distinct_nontrivial"] = len({c["body"] + (c["pre"][0] if c["pre"] else "") for c in cases if "(" in c["body"] or "f" in c["body"] or c["pre"]})
    cov["correspondence_mismatches"] = len(bad)
    cov["rule"] = ("script driver: a value whose Serialize implementation interprets a generated program (emit data, embed senders / move receivers / regions, "
                   "nested sends of depth <= 3 (thorough 5) with their own attachments whose failure is propagated or ignored, failure at any point), optionally "
                   "preceded on the same thread by a send that fails after embedding endpoints, always followed by a plain message; the receiver is a platform-level "
                   "one-shot server so the raw attachment list of every message is visible and each attachment is identified by probing; messages, results and "
                   "release of every endpoint are compared with Tls.ipc_send; non-trivial = nested or failing programs")
    cov["input_distribution"] = {"with_failing_predecessor": sum(1 for c in cases if c["pre"]), "failing": sum(1 for c in cases if "f" in c["body"]),
                                 "nested": sum(1 for c in cases if "(" in c["body"])}
    for c in [x for x in cases if "(" in x["body"]][:3]:
        r = got.get(c["id"])
        chk.sample({"serializer_program": c["body"], "kinds": c["kinds"], "pre": c["pre"] and c["pre"][0], "observed": r and r["result"]})
    if errors:
        chk.unproved("model evaluation (coqc on generated cases) failed", errors[0][-1500:])
    if bad and not fails:
        c, r = bad[0]
        chk.unproved("correspondence TlsCheck.check_script: messages / results differ from Tls.ipc_send on %d of %d programs" % (len(bad), len(todo)),
                     {"serializer_program": c["body"], "model_term": c["term"], "kinds": c["kinds"], "pre": c["pre"], "observed": r and r["result"]})
    # sends refused by the OS (receiver gone), small and multi-packet, carrying senders, a moved receiver and a region; sends whose
    # serialisation fails after embedding: nothing of them may be retained (res driver scenarios shared with C11)
    rnames = ["send_closed_att", "send_closed_big_att", "ser_fail_att"]
    rrecs, _, rrc, rerr = C.run_harness(bins["default"], "res", ["scen name=%s n=%d" % (s, 20) for s in rnames], shim=False, timeout=300)
    rgot = {r.get("name"): r for r in rrecs if r.get("kind") == "scen"}
    for sname in rnames:
        r = rgot.get(sname)
        why = None
        if r is None:
            why = "scenario %s did not complete (rc=%s): %s" % (sname, rrc, rerr[-300:])
        elif r.get("notes"):
            why = "scenario %s: %s" % (sname, r["notes"][:3])
        elif r["fds_after"] != r["fds_before"] or r.get("maps_after") != r.get("maps_before"):
            why = ("scenario %s x20: what the refused / failed sends embedded is still held afterwards: descriptors %s -> %s, mappings %s -> %s"
                   % (sname, r["fds_before"], r["fds_after"], r.get("maps_before"), r.get("maps_after")))
        if why:
            fails.append((None, r, why))
            chk.failing_input(why, {"scenario": sname, "record": r}, key="c14res:%s" % sname)
    cov["refused_send_scenarios"] = sorted(rgot)
    # the same on both transports with the destination sender kept alive: the embedded endpoints' channels are probed directly
    for fl in ("default", "inprocess"):
        if not bins.get(fl):
            continue
        precs, _, prc, perr = C.run_harness(bins[fl], "res", ["scen name=send_closed_probe n=5"], shim=False, timeout=120)
        pr = next((r for r in precs if r.get("kind") == "scen" and r.get("name") == "send_closed_probe"), None)
        why = None
        if pr is None:
            why = "scenario send_closed_probe did not complete on the %s build (rc=%s): %s" % (fl, prc, perr[-300:])
        elif pr.get("notes"):
            why = "%s build: %s" % (fl, pr["notes"][0])
        if why:
            fails.append((None, pr, why))
            chk.failing_input(why, {"scenario": "send_closed_probe", "build": fl, "record": pr}, key="c14probe:%s" % fl)
    ncases, ntodo, nbad = nestrecv_stage(chk, rng, bins["default"], 400 if thorough else 60, fails)
    bad = bad + nbad
    cov["nested_receive_cases"] = len(ncases)
    cov["nested_receive_validated_against_model"] = len(ntodo)
    cov["traces_validated_against_impl"] += len(ntodo)
    chk.assumptions += ["std thread-locals and RefCell are modelled as a per-thread record; a Serialize implementation is modelled by the closed action language of Tls.sact"]
    finish_proof(chk, proof_ok, fails, bad)
